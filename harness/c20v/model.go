package main

// model.go: stage (v) — correspondence with coq/model/M_Validate.v.
// An ABSTRACT input is drawn (one abstract value per field, valid-biased so that late checks are reached),
// printed as a Coq term, and CONCRETISED to wire bytes: each abstract class has several concrete
// representatives (e.g. "bad account address" = broken checksum | other prefix | validator prefix | garbage …;
// "nil number" = field absent | field present with empty payload). The bytes are decoded with the app's interface
// registry and given to the REAL validator; the verdict (ok / error text / panic) goes to Cases_C20v.v where
// coqc evaluates the model on the same abstract input.

import (
	"fmt"
	"math/big"
	"os"
	"reflect"
	"strconv"
	"strings"
	"time"

	sdkmath "cosmossdk.io/math"
	storetypes "cosmossdk.io/store/types"
	codectypes "github.com/cosmos/cosmos-sdk/codec/types"
	kmultisig "github.com/cosmos/cosmos-sdk/crypto/keys/multisig"
	cryptotypes "github.com/cosmos/cosmos-sdk/crypto/types"
	sdk "github.com/cosmos/cosmos-sdk/types"
	txtypes "github.com/cosmos/cosmos-sdk/types/tx"
	"github.com/cosmos/cosmos-sdk/types/tx/signing"
	banktypes "github.com/cosmos/cosmos-sdk/x/bank/types"
	"github.com/cosmos/gogoproto/proto"
	"github.com/ethereum/go-ethereum/common"
	"github.com/ethereum/go-ethereum/crypto"

	fxante "github.com/functionx/fx-core/v8/ante"
	"github.com/functionx/fx-core/v8/contract"
	fxtypes "github.com/functionx/fx-core/v8/types"
	crosschaintypes "github.com/functionx/fx-core/v8/x/crosschain/types"
	erc20types "github.com/functionx/fx-core/v8/x/erc20/types"
	fxevmtypes "github.com/functionx/fx-core/v8/x/evm/types"
	fxgovtypes "github.com/functionx/fx-core/v8/x/gov/types"
	ibcmwtypes "github.com/functionx/fx-core/v8/x/ibc/middleware/types"
	migratetypes "github.com/functionx/fx-core/v8/x/migrate/types"
	stakingtypes "github.com/functionx/fx-core/v8/x/staking/types"
	trontypes "github.com/functionx/fx-core/v8/x/tron/types"

	"fxverif/lib"
)

type bigIntT = big.Int

type mgen struct {
	h  *harness
	ok int // percent bias towards the valid class of a field
}

func (g *mgen) pick(valid int, n int) int {
	if g.h.r.Chance(g.ok) {
		return valid
	}
	return g.h.r.Intn(n)
}

// ---- abstract values: (Coq term, concrete) ----

func (g *mgen) chain() (string, string) {
	switch g.pick(1+g.h.r.Intn(2), 3) {
	case 0:
		return "ChUnknown", unknownChain(g.h.r)
	case 1:
		return "ChEth", ethChains[g.h.r.Intn(len(ethChains))]
	default:
		return "ChTron", "tron"
	}
}

func (g *mgen) bech(id int) (string, string) {
	switch g.pick(2, 3) {
	case 0:
		return "BEmpty", ""
	case 1:
		for {
			s := g.h.p.badAcc(g.h.r)
			if g.h.r.Chance(45) {
				s = g.h.p.nearAcc(g.h.r) // the refusals nearest to an accepted text: well-formed bech32, wrong human-readable part
			}
			if _, err := sdk.AccAddressFromBech32(s); err != nil && s != "" {
				return "BBad", s
			}
		}
	default:
		return fmt.Sprintf("(BGood %d)", id), g.h.p.accOK[id]
	}
}

func (g *mgen) val() (string, string) {
	if g.pick(1, 2) == 1 {
		return "VaGood", g.h.p.valOK[g.h.r.Intn(len(g.h.p.valOK))]
	}
	if g.h.r.Chance(20) {
		return "VaBad", ""
	}
	return "VaBad", g.h.p.badVal(g.h.r)
}

func validEth(s string) bool  { return contract.ValidateEthereumAddress(s) == nil }
func validTron(s string) bool { return trontypes.ValidateTronAddress(s) == nil }

// ext: an external-address text; want = "eth" | "tron" decides which class counts as the valid one for the bias
func (g *mgen) ext(chainCoq string) (string, string) {
	valid := 2
	if chainCoq == "ChTron" {
		valid = 3
	}
	switch g.pick(valid, 4) {
	case 0:
		return "XEmpty", ""
	case 1:
		for {
			var s string
			if g.h.r.Chance(50) {
				s = g.h.p.badEth(g.h.r)
			} else {
				s = g.h.p.badTron(g.h.r)
			}
			if s != "" && !validEth(s) && !validTron(s) {
				return "XBad", s
			}
		}
	case 2:
		return "XEth", g.h.p.ethOK[g.h.r.Intn(len(g.h.p.ethOK))]
	default:
		return "XTron", g.h.p.tronOK[g.h.r.Intn(len(g.h.p.tronOK))]
	}
}

func (g *mgen) hexs(validClass int) (string, string) {
	switch g.pick(validClass, 3) {
	case 0:
		return "HEmpty", ""
	case 1:
		return "HBad", badHex(g.h.r)
	default:
		return "HGood", goodHex(g.h.r)
	}
}

// intv: the concrete Int, and whether it must be made nil on the wire
type intConc struct {
	v   sdkmath.Int
	nil bool
}

func (g *mgen) intv(validClass int) (string, intConc) {
	switch g.pick(validClass, 4) {
	case 0:
		return "INil", intConc{sdkmath.ZeroInt(), true}
	case 1:
		if g.h.r.Chance(50) {
			return "INeg", intConc{sdkmath.NewInt(-1), false}
		}
		return "INeg", intConc{sdkmath.NewIntFromBigInt(two255).Neg(), false}
	case 2:
		return "IZero", intConc{sdkmath.ZeroInt(), false}
	default:
		if g.h.r.Chance(30) {
			return "IPos", intConc{sdkmath.NewIntFromBigInt(two256m1), false}
		}
		return "IPos", intConc{sdkmath.NewInt(1 + int64(g.h.r.Intn(1_000_000))), false}
	}
}

var denomByID = map[int]string{0: "FX", 1: "aaa", 2: "bbb", 3: "ccc", 10: "1x", 11: "a", 12: ""}

func (g *mgen) coin(validInt int, ids []int) (string, sdk.Coin, bool) {
	okDenom := g.pick(1, 2) == 1
	id := ids[g.h.r.Intn(len(ids))]
	if !okDenom {
		id = 10 + g.h.r.Intn(3)
	}
	ic, iv := g.intv(validInt)
	return fmt.Sprintf("{| cd_ok := %v; cd_id := %d; c_amt := %s |}", okDenom, id, ic), sdk.Coin{Denom: denomByID[id], Amount: iv.v}, iv.nil
}

func (g *mgen) u64(zeroPct int) (string, uint64) {
	if g.h.r.Chance(zeroPct) && !g.h.r.Chance(g.ok) {
		return "0", 0
	}
	if g.h.r.Chance(g.ok) {
		v := 1 + uint64(g.h.r.Intn(1000))
		return strconv.FormatUint(v, 10), v
	}
	v := g.h.r.U64Edge()
	return strconv.FormatUint(v, 10), v
}

// ---- concrete execution ----

func fieldNum(m interface{}, name string) int {
	t := reflect.TypeOf(m)
	if t.Kind() == reflect.Ptr {
		t = t.Elem()
	}
	f, ok := t.FieldByName(name)
	if !ok {
		panic("no field " + name + " in " + t.String())
	}
	parts := strings.Split(f.Tag.Get("protobuf"), ",")
	n, err := strconv.Atoi(parts[1])
	if err != nil {
		panic("no protobuf tag on " + name)
	}
	return n
}

// nilOp: make the number at path nil on the wire: absent field or empty payload (both leave the zero value)
func (g *mgen) nilOp(path ...wstep) wireOp {
	if g.h.r.Chance(50) {
		return wireOp{Path: path, Op: "empty"}
	}
	return wireOp{Path: path, Op: "drop"}
}

func obsCoq(o outcome) string {
	switch o.Class {
	case "ok":
		return "OOk"
	case "panic":
		return "OPanic"
	}
	return "(OErr " + coqString(short(o.Msg, 70)) + "%string)"
}

func coqString(s string) string { return "\"" + strings.ReplaceAll(s, "\"", "\"\"") + "\"" }

// wireRun: marshal m, apply ops, decode as the registered type, hand the decoded message to f.
func (h *harness) wireRun(m proto.Message, ops []wireOp, f func(proto.Message) error) outcome {
	bz, ok := marshalGuard(m)
	if !ok {
		return outcome{Class: "err", Msg: "harness: marshal refused"}
	}
	for _, op := range ops {
		nb, applied := applyWire(bz, op)
		if !applied {
			return outcome{Class: "err", Msg: "harness: wire op not applicable"}
		}
		bz = nb
	}
	dm, o := decodeMsg(h.reg, "/"+proto.MessageName(m), bz)
	if o.Class != "ok" {
		// types that are not registered in the interface registry (Params, CustomParams): plain unmarshal
		fresh := reflect.New(reflect.TypeOf(m).Elem()).Interface().(proto.Message)
		if o2 := guard(func() error { return proto.Unmarshal(bz, fresh) }); o2.Class != "ok" {
			return outcome{Class: "err", Msg: "decode: " + o2.Msg}
		}
		dm = fresh
	}
	return guard(func() error { return f(dm) })
}

func vb(m proto.Message) error { return m.(sdk.HasValidateBasic).ValidateBasic() }

// mustPanic: a conversion the handler applies to a message that the REAL ValidateBasic accepted panicked: a failing input
// in its own right (whatever the model says)
func (g *mgen) mustPanic(what string, d outcome, coq string) {
	if d.Class != "panic" {
		return
	}
	g.h.fail("handler-helper", "recovered-by-baseapp", d, what+" panics on a message that ValidateBasic accepted",
		map[string]interface{}{"stage": "model", "abstract_input": coq, "panic": d.Msg, "top_frame": d.Top})
}

type mcase struct {
	coq string
	obs outcome
}

func (g *mgen) cv(input string, o outcome) mcase {
	return mcase{coq: fmt.Sprintf("CV (%s) %s", input, obsCoq(o)), obs: o}
}

// ---- the validators ----

func (g *mgen) params() (string, crosschaintypes.Params, []wireOp, string) {
	p := crosschaintypes.DefaultParams()
	var ops []wireOp
	gid := "GOk"
	switch g.pick(2, 3) {
	case 0:
		gid, p.GravityId = "GEmpty", ""
	case 1:
		gid, p.GravityId = "GLong", strings.Repeat("g", 33+g.h.r.Intn(10))
	}
	num := func(def, bound uint64) (string, uint64) {
		if g.h.r.Chance(g.ok) {
			return strconv.FormatUint(def, 10), def
		}
		v := []uint64{0, 1, bound - 1, bound, bound + 1, ^uint64(0) >> 1}[g.h.r.Intn(6)]
		return strconv.FormatUint(v, 10), v
	}
	var a, b, c, d, ih, bt string
	a, p.AverageBlockTime = num(7000, 100)
	b, p.ExternalBatchTimeout = num(43200000, 60000)
	c, p.AverageExternalBlockTime = num(5000, 100)
	d, p.SignedWindow = num(30000, 1)
	ih, p.IbcTransferTimeoutHeight = num(20000, 1)
	bt, p.BridgeCallTimeout = num(604800000, 3600000)
	dec := func(field string) string {
		switch g.pick(2, 4) {
		case 0:
			ops = append(ops, g.nilOp(wstep{fieldNum(&p, field), 0}))
			return "DNil"
		case 1:
			reflect.ValueOf(&p).Elem().FieldByName(field).Set(reflect.ValueOf(sdkmath.LegacyNewDecWithPrec(-1, int64(g.h.r.Intn(19)))))
			return "DNeg"
		case 2:
			reflect.ValueOf(&p).Elem().FieldByName(field).Set(reflect.ValueOf([]sdkmath.LegacyDec{sdkmath.LegacyZeroDec(), sdkmath.LegacyOneDec(), sdkmath.LegacyNewDecWithPrec(8, 1)}[g.h.r.Intn(3)]))
			return "DUnit"
		default:
			reflect.ValueOf(&p).Elem().FieldByName(field).Set(reflect.ValueOf([]sdkmath.LegacyDec{sdkmath.LegacyOneDec().Add(sdkmath.LegacySmallestDec()), sdkmath.LegacyNewDec(7)}[g.h.r.Intn(2)]))
			return "DBig"
		}
	}
	sl := dec("SlashFraction")
	pc := dec("OracleSetUpdatePowerChangePercent")
	thr, coin, cnil := g.coin(3, []int{0, 0, 0, 1})
	p.DelegateThreshold = coin
	if cnil {
		ops = append(ops, g.nilOp(wstep{fieldNum(&p, "DelegateThreshold"), 0}, wstep{2, 0}))
	}
	mu := "10"
	if !g.h.r.Chance(g.ok) {
		v := []int64{0, -1, 1, -9223372036854775808}[g.h.r.Intn(4)]
		p.DelegateMultiple = v
		mu = fmt.Sprintf("(%d)", v)
	}
	orc := "0"
	if !g.h.r.Chance(g.ok) {
		p.Oracles = []string{g.h.p.accOK[0]}
		orc = "1"
	}
	coq := fmt.Sprintf("{| p_gravity := %s; p_avg_block := %s; p_batch_timeout := %s; p_avg_ext_block := %s; p_signed_window := %s; p_slash := %s; p_ibc_timeout_height := %s; p_power_change := %s; p_threshold := %s; p_multiple := %s; p_oracles := %s; p_bridge_call_timeout := %s |}",
		gid, a, b, c, d, sl, ih, pc, thr, mu, orc, bt)
	return coq, p, ops, ""
}

// prefixOps: the params sit inside field `num` of the wrapper
func prefixOps(num int, ops []wireOp) []wireOp {
	out := make([]wireOp, len(ops))
	for i, op := range ops {
		out[i] = wireOp{Path: append([]wstep{{num, 0}}, op.Path...), Op: op.Op, Set: op.Set}
	}
	return out
}

func (g *mgen) one(kind int) []mcase {
	h := g.h
	r := h.r
	switch kind {
	case 0: // Params (through the wire inside MsgUpdateParams, validated alone)
		pc, p, ops, _ := g.params()
		w := &crosschaintypes.MsgUpdateParams{ChainName: "eth", Authority: h.p.accOK[0], Params: p}
		o := h.wireRun(w, prefixOps(fieldNum(w, "Params"), ops), func(m proto.Message) error { return m.(*crosschaintypes.MsgUpdateParams).Params.ValidateBasic() })
		return []mcase{g.cv("I_Params "+pc, o)}
	case 1:
		pc, p, ops, _ := g.params()
		cc, cv := g.chain()
		ac, av := g.bech(0)
		w := &crosschaintypes.MsgUpdateParams{ChainName: cv, Authority: av, Params: p}
		o := h.wireRun(w, prefixOps(fieldNum(w, "Params"), ops), vb)
		return []mcase{g.cv(fmt.Sprintf("I_MsgUpdateParams {| up_authority := %s; up_chain := %s; up_params := %s |}", ac, cc, pc), o)}
	case 2:
		cc, cv := g.chain()
		oc, ov := g.bech(0)
		bid := 1
		if r.Chance(15) {
			bid = 0
		}
		bc, bv := g.bech(bid)
		xc, xv := g.ext(cc)
		am, coin, cnil := g.coin(2+r.Intn(2), []int{0, 1})
		m := &crosschaintypes.MsgBondedOracle{ChainName: cv, OracleAddress: ov, BridgerAddress: bv, ExternalAddress: xv, ValidatorAddress: h.p.valOK[0], DelegateAmount: coin}
		var ops []wireOp
		if cnil {
			ops = append(ops, g.nilOp(wstep{fieldNum(m, "DelegateAmount"), 0}, wstep{2, 0}))
		}
		return []mcase{g.cv(fmt.Sprintf("I_MsgBondedOracle {| bo_chain := %s; bo_oracle := %s; bo_bridger := %s; bo_external := %s; bo_amount := %s |}", cc, oc, bc, xc, am), h.wireRun(m, ops, vb))}
	case 3:
		cc, cv := g.chain()
		oc, ov := g.bech(0)
		am, coin, cnil := g.coin(3, []int{0, 1})
		m := &crosschaintypes.MsgAddDelegate{ChainName: cv, OracleAddress: ov, Amount: coin}
		var ops []wireOp
		if cnil {
			ops = append(ops, g.nilOp(wstep{fieldNum(m, "Amount"), 0}, wstep{2, 0}))
		}
		return []mcase{g.cv(fmt.Sprintf("I_MsgAddDelegate {| ad_chain := %s; ad_oracle := %s; ad_amount := %s |}", cc, oc, am), h.wireRun(m, ops, vb))}
	case 4:
		cc, cv := g.chain()
		oc, ov := g.bech(0)
		vc, vv := g.val()
		m := &crosschaintypes.MsgReDelegate{ChainName: cv, OracleAddress: ov, ValidatorAddress: vv}
		return []mcase{g.cv(fmt.Sprintf("I_MsgReDelegate {| rd_chain := %s; rd_oracle := %s; rd_validator := %s |}", cc, oc, vc), h.wireRun(m, nil, vb))}
	case 5:
		cc, cv := g.chain()
		oc, ov := g.bech(0)
		vc, vv := g.val()
		m := &crosschaintypes.MsgEditBridger{ChainName: cv, OracleAddress: ov, BridgerAddress: vv}
		return []mcase{g.cv(fmt.Sprintf("I_MsgEditBridger {| eb_chain := %s; eb_oracle := %s; eb_bridger := %s |}", cc, oc, vc), h.wireRun(m, nil, vb))}
	case 6:
		cc, cv := g.chain()
		oc, ov := g.bech(0)
		if r.Chance(50) {
			return []mcase{g.cv(fmt.Sprintf("I_MsgWithdrawReward {| oo_chain := %s; oo_oracle := %s |}", cc, oc), h.wireRun(&crosschaintypes.MsgWithdrawReward{ChainName: cv, OracleAddress: ov}, nil, vb))}
		}
		return []mcase{g.cv(fmt.Sprintf("I_MsgUnbondedOracle {| oo_chain := %s; oo_oracle := %s |}", cc, oc), h.wireRun(&crosschaintypes.MsgUnbondedOracle{ChainName: cv, OracleAddress: ov}, nil, vb))}
	case 7: // the three confirms
		cc, cv := g.chain()
		bc, bv := g.bech(0)
		xc, xv := g.ext(cc)
		sc, sv := g.hexs(2)
		switch r.Intn(3) {
		case 0:
			m := &crosschaintypes.MsgOracleSetConfirm{Nonce: 1, BridgerAddress: bv, ExternalAddress: xv, Signature: sv, ChainName: cv}
			return []mcase{g.cv(fmt.Sprintf("I_MsgOracleSetConfirm {| cf_chain := %s; cf_bridger := %s; cf_external := %s; cf_token := None; cf_sig := %s |}", cc, bc, xc, sc), h.wireRun(m, nil, vb))}
		case 1:
			m := &crosschaintypes.MsgBridgeCallConfirm{Nonce: 1, BridgerAddress: bv, ExternalAddress: xv, Signature: sv, ChainName: cv}
			return []mcase{g.cv(fmt.Sprintf("I_MsgBridgeCallConfirm {| cf_chain := %s; cf_bridger := %s; cf_external := %s; cf_token := None; cf_sig := %s |}", cc, bc, xc, sc), h.wireRun(m, nil, vb))}
		default:
			tc, tv := g.ext(cc)
			m := &crosschaintypes.MsgConfirmBatch{Nonce: 1, TokenContract: tv, BridgerAddress: bv, ExternalAddress: xv, Signature: sv, ChainName: cv}
			return []mcase{g.cv(fmt.Sprintf("I_MsgConfirmBatch {| cf_chain := %s; cf_bridger := %s; cf_external := %s; cf_token := Some %s; cf_sig := %s |}", cc, bc, xc, tc, sc), h.wireRun(m, nil, vb))}
		}
	case 8:
		cc, cv := g.chain()
		sc, sv := g.bech(0)
		dc, dv := g.ext(cc)
		ids := []int{0, 0, 1}
		am, coin, anil := g.coin(3, ids)
		fe, fee, fnil := g.coin(3, ids)
		m := &crosschaintypes.MsgSendToExternal{Sender: sv, Dest: dv, Amount: coin, BridgeFee: fee, ChainName: cv}
		var ops []wireOp
		if anil {
			ops = append(ops, g.nilOp(wstep{fieldNum(m, "Amount"), 0}, wstep{2, 0}))
		}
		if fnil {
			ops = append(ops, g.nilOp(wstep{fieldNum(m, "BridgeFee"), 0}, wstep{2, 0}))
		}
		return []mcase{g.cv(fmt.Sprintf("I_MsgSendToExternal {| se_chain := %s; se_sender := %s; se_dest := %s; se_amount := %s; se_fee := %s |}", cc, sc, dc, am, fe), h.wireRun(m, ops, vb))}
	case 9:
		cc, cv := g.chain()
		sc, sv := g.bech(0)
		de := !r.Chance(g.ok) && r.Chance(50)
		denom := "FX"
		if de {
			denom = ""
		}
		mf, mfv := g.intv(3)
		fc, fv := g.ext(cc)
		bf, bfv := g.intv(2 + r.Intn(2))
		m := &crosschaintypes.MsgRequestBatch{Sender: sv, Denom: denom, MinimumFee: mfv.v, FeeReceive: fv, ChainName: cv, BaseFee: bfv.v}
		var ops []wireOp
		if mfv.nil {
			ops = append(ops, g.nilOp(wstep{fieldNum(m, "MinimumFee"), 0}))
		}
		if bfv.nil {
			ops = append(ops, g.nilOp(wstep{fieldNum(m, "BaseFee"), 0}))
		}
		return []mcase{g.cv(fmt.Sprintf("I_MsgRequestBatch {| rb_chain := %s; rb_sender := %s; rb_denom_empty := %v; rb_min_fee := %s; rb_fee_receive := %s; rb_base_fee := %s |}", cc, sc, de, mf, fc, bf), h.wireRun(m, ops, vb))}
	case 10:
		cc, cv := g.chain()
		sc, sv := g.bech(0)
		tc, tv := g.u64(60)
		m := &crosschaintypes.MsgCancelSendToExternal{TransactionId: tv, Sender: sv, ChainName: cv}
		return []mcase{g.cv(fmt.Sprintf("I_MsgCancelSendToExternal {| cs_chain := %s; cs_sender := %s; cs_txid := %s |}", cc, sc, tc), h.wireRun(m, nil, vb))}
	case 11:
		cc, cv := g.chain()
		sc, sv := g.bech(0)
		tc, tv := g.u64(60)
		fe, fee, fnil := g.coin(3, []int{0, 1})
		m := &crosschaintypes.MsgIncreaseBridgeFee{ChainName: cv, TransactionId: tv, Sender: sv, AddBridgeFee: fee}
		var ops []wireOp
		if fnil {
			ops = append(ops, g.nilOp(wstep{fieldNum(m, "AddBridgeFee"), 0}, wstep{2, 0}))
		}
		return []mcase{g.cv(fmt.Sprintf("I_MsgIncreaseBridgeFee {| if_chain := %s; if_sender := %s; if_txid := %s; if_fee := %s |}", cc, sc, tc, fe), h.wireRun(m, ops, vb))}
	case 12:
		cc, cv := g.chain()
		ac, av := g.bech(0)
		n := r.Intn(4)
		if r.Chance(g.ok) && n == 0 {
			n = 2
		}
		var ocs, ovs []string
		for i := 0; i < n; i++ {
			id := 1 + r.Intn(4)
			oc, ov := g.bech(id)
			ocs, ovs = append(ocs, oc), append(ovs, ov)
		}
		m := &crosschaintypes.MsgUpdateChainOracles{ChainName: cv, Authority: av, Oracles: ovs}
		return []mcase{g.cv(fmt.Sprintf("I_MsgUpdateChainOracles {| uo_authority := %s; uo_chain := %s; uo_oracles := [%s] |}", ac, cc, strings.Join(ocs, "; ")), h.wireRun(m, nil, vb))}
	case 13, 14, 15: // claims: alone and inside MsgClaim
		return g.claimCases()
	case 16: // MsgConfirm: no ValidateBasic; the handler entry
		return g.confirmWrapper()
	case 17, 18:
		return g.bridgeCall()
	case 19:
		sc, sv := g.bech(0)
		rc, rv := g.ext("ChEth")
		dok := g.pick(1, 2) == 1
		denom := []string{"FX", "ibc/" + strings.Repeat("AB", 32), "usdt"}[r.Intn(3)]
		if !dok {
			denom = []string{"", "ibc", "ibc/xyz", "ibc/ ", "1a"}[r.Intn(5)]
		}
		ac, av := g.intv(3)
		m := &erc20types.MsgConvertCoin{Coin: sdk.Coin{Denom: denom, Amount: av.v}, Receiver: rv, Sender: sv}
		var ops []wireOp
		if av.nil {
			ops = append(ops, g.nilOp(wstep{fieldNum(m, "Coin"), 0}, wstep{2, 0}))
		}
		return []mcase{g.cv(fmt.Sprintf("I_MsgConvertCoin {| cc_sender := %s; cc_receiver := %s; cc_denom_ibc_ok := %v; cc_amount := %s |}", sc, rc, dok, ac), h.wireRun(m, ops, vb))}
	case 20:
		sc, sv := g.ext("ChEth")
		rc, rv := g.bech(0)
		cc, cv := g.ext("ChEth")
		ac, av := g.intv(3)
		m := &erc20types.MsgConvertERC20{ContractAddress: cv, Amount: av.v, Receiver: rv, Sender: sv}
		var ops []wireOp
		if av.nil {
			ops = append(ops, g.nilOp(wstep{fieldNum(m, "Amount"), 0}))
		}
		return []mcase{g.cv(fmt.Sprintf("I_MsgConvertERC20 {| ce_sender := %s; ce_receiver := %s; ce_contract := %s; ce_amount := %s |}", sc, rc, cc, ac), h.wireRun(m, ops, vb))}
	case 21:
		sc, sv := g.bech(0)
		rc, rv := g.bech(1)
		co, coin, cnil := g.coin(3, []int{0, 1})
		m := &erc20types.MsgConvertDenom{Sender: sv, Receiver: rv, Coin: coin, Target: "eth"}
		var ops []wireOp
		if cnil {
			ops = append(ops, g.nilOp(wstep{fieldNum(m, "Coin"), 0}, wstep{2, 0}))
		}
		return []mcase{g.cv(fmt.Sprintf("I_MsgConvertDenom {| cd_sender := %s; cd_receiver := %s; cd_coin := %s |}", sc, rc, co), h.wireRun(m, ops, vb))}
	case 22:
		ac, av := g.bech(0)
		to := time.Hour
		tc := "3600000000000"
		if !r.Chance(g.ok) {
			to, tc = []time.Duration{0, -1}[r.Intn(2)], []string{"0", "(-1)"}[0]
			if to == -1 {
				tc = "(-1)"
			}
		}
		m := &erc20types.MsgUpdateParams{Authority: av, Params: erc20types.Params{EnableErc20: true, IbcTimeout: to}}
		return []mcase{g.cv(fmt.Sprintf("I_Erc20MsgUpdateParams {| eu_authority := %s; eu_ibc_timeout := %s |}", ac, tc), h.wireRun(m, nil, vb))}
	case 23:
		ac, av := g.bech(0)
		md := fxtypes.GetCrossChainMetadataManyToOne("Tether USD", "USDT", 6)
		bankOK, fx, baseOK := true, "FmOk", true
		switch g.pick(0, 6) {
		case 1:
			bankOK = false
			md.Display = "nodisplayunit"
		case 2:
			bankOK = false
			md.DenomUnits[1].Exponent = 0
		case 3:
			fx = "FmNoDecimals"
			md.Symbol = "OTHER" // no denom unit named like the symbol
		case 4:
			baseOK = false
			md.Base, md.Display, md.DenomUnits[0].Denom = "ibc", "ibc", "ibc"
		case 5:
			bankOK = false
			md.Name = "  "
		}
		m := &erc20types.MsgRegisterCoin{Authority: av, Metadata: md}
		return []mcase{g.cv(fmt.Sprintf("I_MsgRegisterCoin {| rc_authority := %s; rc_bank_ok := %v; rc_fx := %s; rc_base_ibc_ok := %v |}", ac, bankOK, fx, baseOK), h.wireRun(m, nil, vb))}
	case 24:
		ac, av := g.bech(0)
		xc, xv := g.ext("ChEth")
		var als, alv []string
		for i, n := 0, r.Intn(4); i < n; i++ {
			switch g.pick(2, 3) {
			case 0:
				als, alv = append(als, "AlBlank"), append(alv, []string{"", "  "}[r.Intn(2)])
			case 1:
				als, alv = append(als, "AlBadDenom"), append(alv, []string{"1a", "a", "x y z"}[r.Intn(3)])
			default:
				id := r.Intn(3)
				als, alv = append(als, fmt.Sprintf("AlGood %d", id)), append(alv, []string{"usdc", "eth0x0000000000000000000000000000000000000002", "dai"}[id])
			}
		}
		m := &erc20types.MsgRegisterERC20{Authority: av, Erc20Address: xv, Aliases: alv}
		return []mcase{g.cv(fmt.Sprintf("I_MsgRegisterERC20 {| re_authority := %s; re_address := %s; re_aliases := [%s] |}", ac, xc, strings.Join(als, "; ")), h.wireRun(m, nil, vb))}
	case 25:
		ac, av := g.bech(0)
		tk, tv := "TkEth", h.p.ethOK[0]
		switch g.pick(0, 3) {
		case 1:
			tk, tv = "TkDenom", []string{"usdt", "eth" + h.p.ethOK[0]}[r.Intn(2)]
		case 2:
			tk, tv = "TkNeither", []string{"", "a", "1a", "x y"}[r.Intn(4)]
		}
		m := &erc20types.MsgToggleTokenConversion{Authority: av, Token: tv}
		return []mcase{g.cv(fmt.Sprintf("I_MsgToggleTokenConversion {| tg_authority := %s; tg_token := %s |}", ac, tk), h.wireRun(m, nil, vb))}
	case 26:
		ac, av := g.bech(0)
		dok, aok := g.pick(1, 2) == 1, g.pick(1, 2) == 1
		d, a := "usdt", "eth0x0000000000000000000000000000000000000001"
		if !dok {
			d = []string{"", "1a", "a"}[r.Intn(3)]
		}
		if !aok {
			a = []string{"", "1a", "a"}[r.Intn(3)]
		}
		m := &erc20types.MsgUpdateDenomAlias{Authority: av, Denom: d, Alias: a}
		return []mcase{g.cv(fmt.Sprintf("I_MsgUpdateDenomAlias {| da_authority := %s; da_denom_ok := %v; da_alias_ok := %v |}", ac, dok, aok), h.wireRun(m, nil, vb))}
	case 27:
		return g.migrate()
	case 28:
		ac, av := g.bech(0)
		var scs []string
		var stores []fxgovtypes.UpdateStore
		n := r.Intn(3)
		if r.Chance(g.ok) && n == 0 {
			n = 1
		}
		for i := 0; i < n; i++ {
			se := !r.Chance(g.ok) && r.Chance(40)
			space := "bank"
			if se {
				space = ""
			}
			kc, kv := g.hexs(2)
			oc, ov := g.hexs(r.Intn(3))
			vc, vv := g.hexs(r.Intn(3))
			if r.Chance(g.ok) {
				oc, ov = "HEmpty", ""
				vc, vv = "HGood", "02"
			}
			scs = append(scs, fmt.Sprintf("{| st_space_empty := %v; st_key := %s; st_old := %s; st_value := %s |}", se, kc, oc, vc))
			stores = append(stores, fxgovtypes.UpdateStore{Space: space, Key: kv, OldValue: ov, Value: vv})
		}
		m := &fxgovtypes.MsgUpdateStore{Authority: av, UpdateStores: stores}
		o := h.wireRun(m, nil, vb)
		out := []mcase{g.cv(fmt.Sprintf("I_MsgUpdateStore {| us_authority := %s; us_stores := [%s] |}", ac, strings.Join(scs, "; ")), o)}
		if o.Class == "ok" {
			for i := range stores {
				s := stores[i]
				d := guard(func() error { s.KeyToBytes(); s.OldValueToBytes(); s.ValueToBytes(); return nil })
				g.mustPanic("UpdateStore.KeyToBytes/OldValueToBytes/ValueToBytes", d, scs[i])
				out = append(out, mcase{coq: fmt.Sprintf("CMust_Store %s %v", scs[i], d.Class == "ok"), obs: d})
			}
		}
		return out
	case 29:
		ac, av := g.bech(0)
		mk := func() (string, []string) {
			var ids, vals []string
			for i, n := 0, r.Intn(4); i < n; i++ {
				id := r.Intn(4)
				if r.Chance(g.ok) {
					id = i
				}
				ids = append(ids, strconv.Itoa(id))
				vals = append(vals, []string{"0x1003", "0x1004", "/fx.erc20.v1.MsgConvertCoin", ""}[id])
			}
			return "[" + strings.Join(ids, "; ") + "]", vals
		}
		pc, pv := mk()
		mc, mv := mk()
		m := &fxgovtypes.MsgUpdateSwitchParams{Authority: av, Params: fxgovtypes.SwitchParams{DisablePrecompiles: pv, DisableMsgTypes: mv}}
		return []mcase{g.cv(fmt.Sprintf("I_MsgUpdateSwitchParams {| sw_authority := %s; sw_precompiles := %s; sw_msgtypes := %s |}", ac, pc, mc), h.wireRun(m, nil, vb))}
	case 30: // CustomParams (validated by the MsgUpdateCustomParams handler), decoded from the wire inside its message
		dur := func() (string, *time.Duration) {
			switch g.pick(2, 3) {
			case 0:
				return "PNil", nil
			case 1:
				d := []time.Duration{0, -time.Second, -1}[r.Intn(3)]
				return "PNonPos", &d
			default:
				d := []time.Duration{time.Second, time.Hour * 24 * 14}[r.Intn(2)]
				return "PPos", &d
			}
		}
		decs := func() (string, string) {
			switch g.pick(2, 4) {
			case 0:
				return "SBad", []string{"", "abc", "1.0000000000000000001", "0x1", "1e2"}[r.Intn(5)]
			case 1:
				return "SNeg", []string{"-0.1", "-1"}[r.Intn(2)]
			case 2:
				return "SUnit", []string{"0", "0.25", "1", "1.000000000000000000"}[r.Intn(4)]
			default:
				return "SBig", []string{"1.000000000000000001", "2", "100"}[r.Intn(3)]
			}
		}
		pc, pv := dur()
		qc, qv := decs()
		rc, rv := decs()
		w := &fxgovtypes.MsgUpdateCustomParams{Authority: h.p.accOK[0], MsgUrl: "/fx.erc20.v1.MsgRegisterCoin", CustomParams: fxgovtypes.CustomParams{DepositRatio: rv, VotingPeriod: pv, Quorum: qv}}
		o := h.wireRun(w, nil, func(m proto.Message) error { return m.(*fxgovtypes.MsgUpdateCustomParams).CustomParams.ValidateBasic() })
		return []mcase{g.cv(fmt.Sprintf("I_CustomParams {| cp_period := %s; cp_quorum := %s; cp_ratio := %s |}", pc, qc, rc), o)}
	case 31:
		ac, av := g.bech(0)
		xc, xv := g.ext("ChEth")
		de := g.pick(0, 2) == 1
		data := "00"
		if de {
			data = ""
		}
		m := &fxevmtypes.MsgCallContract{Authority: av, ContractAddress: xv, Data: data}
		return []mcase{g.cv(fmt.Sprintf("I_MsgCallContract {| ct_authority := %s; ct_contract := %s; ct_data_empty := %v |}", ac, xc, de), h.wireRun(m, nil, vb))}
	case 32, 33:
		return g.precompileArgs()
	case 34:
		cc, cv := g.chain()
		xc, xv := g.ext(cc)
		o := guard(func() error { return crosschaintypes.ValidateExternalAddr(cv, xv) })
		return []mcase{g.cv(fmt.Sprintf("I_ValidateExternalAddr %s %s", cc, xc), o)}
	case 35:
		return g.ibcMemo()
	case 36:
		return g.targets()
	case 37:
		return g.pubKeyDecorator()
	case 38:
		return g.multisigGas()
	case 39, 40:
		return g.legacyContent()
	}
	return nil
}

// legacyContent: the gov v1beta1 Content validators of fx-core, decoded from the wire as the content of a proposal
func (g *mgen) legacyContent() []mcase {
	h := g.h
	r := h.r
	abs := func() (string, string, string) {
		if g.pick(0, 2) == 0 {
			return "AbOk", "title", "description"
		}
		switch r.Intn(4) {
		case 0:
			return "AbBad", "", "d"
		case 1:
			return "AbBad", strings.Repeat("t", 141), "d"
		case 2:
			return "AbBad", "t", "" // (a blank-only description passes: ValidateAbstract trims the title only)
		default:
			return "AbBad", "t", strings.Repeat("d", 10001)
		}
	}
	ac, title, desc := abs()
	switch r.Intn(5) {
	case 0:
		cc, cv := g.chain()
		n := r.Intn(4)
		if r.Chance(g.ok) && n == 0 {
			n = 2
		}
		var ocs, ovs []string
		for i := 0; i < n; i++ {
			oc, ov := g.bech(1 + r.Intn(4))
			ocs, ovs = append(ocs, oc), append(ovs, ov)
		}
		m := &crosschaintypes.UpdateChainOraclesProposal{Title: title, Description: desc, ChainName: cv, Oracles: ovs}
		return []mcase{g.cv(fmt.Sprintf("I_LUpdateChainOracles {| lo_chain := %s; lo_abs := %s; lo_oracles := [%s] |}", cc, ac, strings.Join(ocs, "; ")), h.wireRun(m, nil, vb))}
	case 1:
		md := fxtypes.GetCrossChainMetadataManyToOne("Tether USD", "USDT", 6)
		bankOK, fx, baseOK := true, "FmOk", true
		switch g.pick(0, 6) {
		case 1:
			bankOK = false
			md.Display = "nodisplayunit"
		case 2:
			bankOK = false
			md.DenomUnits[1].Exponent = 0
		case 3:
			fx = "FmNoDecimals"
			md.Symbol = "OTHER"
		case 4:
			baseOK = false
			md.Base, md.Display, md.DenomUnits[0].Denom = "ibc", "ibc", "ibc"
		case 5:
			bankOK = false
			md.Name = "  "
		}
		m := &erc20types.RegisterCoinProposal{Title: title, Description: desc, Metadata: md}
		return []mcase{g.cv(fmt.Sprintf("I_LRegisterCoin {| lc_bank_ok := %v; lc_fx := %s; lc_base_ibc_ok := %v; lc_abs := %s |}", bankOK, fx, baseOK, ac), h.wireRun(m, nil, vb))}
	case 2:
		xc, xv := g.ext("ChEth")
		var als, alv []string
		for i, n := 0, r.Intn(4); i < n; i++ {
			switch g.pick(2, 3) {
			case 0:
				als, alv = append(als, "AlBlank"), append(alv, []string{"", "  "}[r.Intn(2)])
			case 1:
				als, alv = append(als, "AlBadDenom"), append(alv, []string{"1a", "a", "x y z"}[r.Intn(3)])
			default:
				id := r.Intn(3)
				als, alv = append(als, fmt.Sprintf("AlGood %d", id)), append(alv, []string{"usdc", "eth0x0000000000000000000000000000000000000002", "dai"}[id])
			}
		}
		m := &erc20types.RegisterERC20Proposal{Title: title, Description: desc, Erc20Address: xv, Aliases: alv}
		return []mcase{g.cv(fmt.Sprintf("I_LRegisterERC20 {| le_address := %s; le_aliases := [%s]; le_abs := %s |}", xc, strings.Join(als, "; "), ac), h.wireRun(m, nil, vb))}
	case 3:
		tk, tv := "TkEth", h.p.ethOK[0]
		switch g.pick(0, 3) {
		case 1:
			tk, tv = "TkDenom", []string{"usdt", "eth" + h.p.ethOK[0]}[r.Intn(2)]
		case 2:
			tk, tv = "TkNeither", []string{"", "a", "1a", "x y"}[r.Intn(4)]
		}
		m := &erc20types.ToggleTokenConversionProposal{Title: title, Description: desc, Token: tv}
		return []mcase{g.cv(fmt.Sprintf("I_LToggle {| lt_token := %s; lt_abs := %s |}", tk, ac), h.wireRun(m, nil, vb))}
	default:
		dok, aok := g.pick(1, 2) == 1, g.pick(1, 2) == 1
		d, a := "usdt", "eth0x0000000000000000000000000000000000000001"
		if !dok {
			d = []string{"", "1a", "a"}[r.Intn(3)]
		}
		if !aok {
			a = []string{"", "1a", "a"}[r.Intn(3)]
		}
		m := &erc20types.UpdateDenomAliasProposal{Title: title, Description: desc, Denom: d, Alias: a}
		return []mcase{g.cv(fmt.Sprintf("I_LDenomAlias {| ld_denom_ok := %v; ld_alias_ok := %v; ld_abs := %s |}", dok, aok, ac), h.wireRun(m, nil, vb))}
	}
}

// pubKeyDecorator: the real ante.PubKeyDecorator on a decoded tx with npub signer infos and nsig required signers.
func (g *mgen) pubKeyDecorator() []mcase {
	h := g.h
	r := h.r
	nsig := 1 + r.Intn(2)
	npub := r.Intn(4)
	if r.Chance(g.ok) {
		npub = nsig
	}
	var msgs []*codectypes.Any
	for i := 0; i < nsig; i++ {
		msgs = append(msgs, h.anyOf(&banktypes.MsgSend{FromAddress: h.p.accOK[i], ToAddress: h.p.accOK[3], Amount: sdk.NewCoins(fxCoin(1))}))
	}
	body, _ := proto.Marshal(&txtypes.TxBody{Messages: msgs})
	ai := &txtypes.AuthInfo{Fee: &txtypes.Fee{Amount: sdk.NewCoins(fxCoin(10)), GasLimit: 200000}}
	for i := 0; i < npub; i++ {
		pk, _ := codectypes.NewAnyWithValue(h.p.keys[i%len(h.p.keys)].Priv.PubKey())
		ai.SignerInfos = append(ai.SignerInfos, &txtypes.SignerInfo{PublicKey: pk, ModeInfo: &txtypes.ModeInfo{Sum: &txtypes.ModeInfo_Single_{Single: &txtypes.ModeInfo_Single{Mode: signing.SignMode_SIGN_MODE_DIRECT}}}})
	}
	aiBz, _ := proto.Marshal(ai)
	sigs := make([][]byte, nsig)
	for i := range sigs {
		sigs[i] = randBytes(r, 64)
	}
	raw, _ := proto.Marshal(&txtypes.TxRaw{BodyBytes: body, AuthInfoBytes: aiBz, Signatures: sigs})
	o := guard(func() error {
		tx, err := h.c.App.GetTxConfig().TxDecoder()(raw)
		if err != nil {
			return fmt.Errorf("harness: decode: %w", err)
		}
		ctx, _ := h.c.Ctx.CacheContext()
		for i := 0; i < nsig; i++ {
			h.c.EnsureAccount(ctx, h.p.keys[i].Acc())
		}
		next := func(ctx sdk.Context, _ sdk.Tx, _ bool) (sdk.Context, error) { return ctx, nil }
		_, err = fxante.NewPubKeyDecorator(h.c.App.AccountKeeper).AnteHandle(ctx, tx, false, next)
		return err
	})
	if o.Class == "panic" {
		h.fail("ante", "recovered-by-ante", o, "PubKeyDecorator panics", map[string]interface{}{"stage": "model", "tx_bytes_hex": fmt.Sprintf("%x", raw), "npub": npub, "nsig": nsig, "panic": o.Msg})
	}
	return []mcase{g.cv(fmt.Sprintf("I_PubKeyDecorator %d %d", npub, nsig), o)}
}

// multisigGas: the real ante.ConsumeMultisignatureVerificationGas on a bit array / key set / signature list of chosen sizes.
func (g *mgen) multisigGas() []mcase {
	h := g.h
	r := h.r
	nkeys := 1 + r.Intn(4)
	size := r.Intn(7)
	if r.Chance(g.ok) {
		size = nkeys
	}
	ba := cryptotypes.NewCompactBitArray(size)
	ntrue := 0
	for i := 0; i < size; i++ {
		if r.Chance(60) {
			ba.SetIndex(i, true)
			ntrue++
		}
	}
	nsigs := r.Intn(5)
	if r.Chance(g.ok) {
		nsigs = ntrue
	}
	if ba == nil { // size 0
		ba = &cryptotypes.CompactBitArray{}
	}
	var keys []cryptotypes.PubKey
	for i := 0; i < nkeys; i++ {
		keys = append(keys, h.p.keys[i%len(h.p.keys)].Priv.PubKey())
	}
	pk := kmultisig.NewLegacyAminoPubKey(1, keys)
	ms := &signing.MultiSignatureData{BitArray: ba}
	for i := 0; i < nsigs; i++ {
		ms.Signatures = append(ms.Signatures, &signing.SingleSignatureData{SignMode: signing.SignMode_SIGN_MODE_LEGACY_AMINO_JSON, Signature: randBytes(r, 64)})
	}
	o := guard(func() error {
		ctx, _ := h.c.Ctx.CacheContext()
		return fxante.ConsumeMultisignatureVerificationGas(storetypes.NewInfiniteGasMeter(), ms, pk, h.c.App.AccountKeeper.GetParams(ctx), 0)
	})
	if o.Class == "panic" {
		h.fail("ante", "recovered-by-ante", o, "ConsumeMultisignatureVerificationGas panics", map[string]interface{}{"stage": "model", "size": size, "nkeys": nkeys, "ntrue": ntrue, "nsigs": nsigs, "panic": o.Msg})
	}
	return []mcase{g.cv(fmt.Sprintf("I_MultisigGas %d %d %d %d", size, nkeys, ntrue, nsigs), o)}
}

func (g *mgen) claimCases() []mcase {
	h := g.h
	r := h.r
	cc, cv := g.chain()
	bc, bv := g.bech(0)
	en, env := g.u64(50)
	bh, bhv := g.u64(50)
	var claimCoq string
	var claim crosschaintypes.ExternalClaim
	var ops []wireOp
	var bcc *crosschaintypes.MsgBridgeCallClaim
	var bccCoq string
	switch r.Intn(6) {
	case 0:
		sc, sv := g.ext(cc)
		tc, tv := g.ext(cc)
		rc, rv := g.bech(1)
		ac, av := g.intv(2 + r.Intn(2))
		ic, iv := g.hexs(r.Intn(3))
		if r.Chance(g.ok) {
			ic, iv = "HEmpty", ""
		}
		m := &crosschaintypes.MsgSendToFxClaim{EventNonce: env, BlockHeight: bhv, TokenContract: tv, Amount: av.v, Sender: sv, Receiver: rv, TargetIbc: iv, BridgerAddress: bv, ChainName: cv}
		if av.nil {
			ops = append(ops, g.nilOp(wstep{fieldNum(m, "Amount"), 0}))
		}
		claim = m
		claimCoq = fmt.Sprintf("ClSendToFx {| sf_chain := %s; sf_bridger := %s; sf_sender := %s; sf_token := %s; sf_receiver := %s; sf_amount := %s; sf_target_ibc := %s; sf_event_nonce := %s; sf_block_height := %s |}", cc, bc, sc, tc, rc, ac, ic, en, bh)
	case 1:
		sc, sv := g.ext(cc)
		rc, rv := g.ext(cc)
		tc, tv := g.ext(cc)
		oc, ov := g.ext(cc)
		dc, dv := g.hexs(r.Intn(3))
		mc, mv := g.hexs(r.Intn(3))
		if r.Chance(g.ok) {
			dc, dv = "HGood", "00"
			mc, mv = "HEmpty", ""
		}
		vc, vv := g.intv(2 + r.Intn(2))
		nt := r.Intn(3)
		na := nt
		if !r.Chance(g.ok) {
			na = r.Intn(3)
		}
		var tcs, tvs, acs []string
		var avs []sdkmath.Int
		m := &crosschaintypes.MsgBridgeCallClaim{}
		for i := 0; i < nt; i++ {
			c, v := g.ext(cc)
			tcs, tvs = append(tcs, c), append(tvs, v)
		}
		for i := 0; i < na; i++ {
			// amounts: nil and negative entries must be rejected by ValidateBasic (edafc05)
			c, v := g.intv(2 + r.Intn(2))
			acs, avs = append(acs, c), append(avs, v.v)
			if v.nil {
				ops = append(ops, wireOp{Path: []wstep{{fieldNum(m, "Amounts"), i}}, Op: "empty"})
			}
		}
		*m = crosschaintypes.MsgBridgeCallClaim{ChainName: cv, BridgerAddress: bv, EventNonce: env, BlockHeight: bhv, Sender: sv, Refund: rv, TokenContracts: tvs, Amounts: avs, To: tv, Data: dv, Value: vv.v, Memo: mv, TxOrigin: ov}
		if vv.nil {
			ops = append(ops, g.nilOp(wstep{fieldNum(m, "Value"), 0}))
		}
		claim = m
		bccCoq = fmt.Sprintf("{| bc_chain := %s; bc_bridger := %s; bc_sender := %s; bc_refund := %s; bc_tokens := [%s]; bc_amounts := [%s]; bc_to := %s; bc_data := %s; bc_value := %s; bc_memo := %s; bc_tx_origin := %s; bc_event_nonce := %s; bc_block_height := %s |}",
			cc, bc, sc, rc, strings.Join(tcs, "; "), strings.Join(acs, "; "), tc, dc, vc, mc, oc, en, bh)
		claimCoq = "ClBridgeCall " + bccCoq
		bcc = m
	case 2:
		nc, nv := g.u64(50)
		oc, ov := g.ext(cc)
		ca, cav := g.hexs(r.Intn(3))
		m := &crosschaintypes.MsgBridgeCallResultClaim{ChainName: cv, BridgerAddress: bv, EventNonce: env, BlockHeight: bhv, Nonce: nv, TxOrigin: ov, Success: r.Chance(50), Cause: cav}
		claim = m
		claimCoq = fmt.Sprintf("ClBridgeCallResult {| br_chain := %s; br_bridger := %s; br_nonce := %s; br_event_nonce := %s; br_block_height := %s; br_tx_origin := %s; br_cause := %s |}", cc, bc, nc, en, bh, oc, ca)
	case 3:
		tc, tv := g.ext(cc)
		nc, nv := g.u64(50)
		m := &crosschaintypes.MsgSendToExternalClaim{EventNonce: env, BlockHeight: bhv, BatchNonce: nv, TokenContract: tv, BridgerAddress: bv, ChainName: cv}
		claim = m
		claimCoq = fmt.Sprintf("ClSendToExternal {| sx_chain := %s; sx_bridger := %s; sx_token := %s; sx_event_nonce := %s; sx_block_height := %s; sx_batch_nonce := %s |}", cc, bc, tc, en, bh, nc)
	case 4:
		tc, tv := g.ext(cc)
		ic, iv := g.hexs(r.Intn(3))
		ne, se := !r.Chance(g.ok) && r.Chance(50), !r.Chance(g.ok) && r.Chance(50)
		name, sym := "Tether", "USDT"
		if ne {
			name = ""
		}
		if se {
			sym = ""
		}
		m := &crosschaintypes.MsgBridgeTokenClaim{EventNonce: env, BlockHeight: bhv, TokenContract: tv, Name: name, Symbol: sym, Decimals: 6, BridgerAddress: bv, ChannelIbc: iv, ChainName: cv}
		claim = m
		claimCoq = fmt.Sprintf("ClBridgeToken {| bt_chain := %s; bt_bridger := %s; bt_token := %s; bt_channel_ibc := %s; bt_name_empty := %v; bt_symbol_empty := %v; bt_event_nonce := %s; bt_block_height := %s |}", cc, bc, tc, ic, ne, se, en, bh)
	default:
		n := r.Intn(3)
		if r.Chance(g.ok) && n == 0 {
			n = 2
		}
		var mcs []string
		var mvs []crosschaintypes.BridgeValidator
		for i := 0; i < n; i++ {
			xc, xv := g.ext(cc)
			pc, pv := g.u64(60)
			mcs = append(mcs, fmt.Sprintf("(%s, %s)", xc, pc))
			mvs = append(mvs, crosschaintypes.BridgeValidator{Power: pv, ExternalAddress: xv})
		}
		m := &crosschaintypes.MsgOracleSetUpdatedClaim{EventNonce: env, BlockHeight: bhv, OracleSetNonce: 1, Members: mvs, BridgerAddress: bv, ChainName: cv}
		claim = m
		claimCoq = fmt.Sprintf("ClOracleSet {| os_chain := %s; os_bridger := %s; os_members := [%s]; os_event_nonce := %s; os_block_height := %s |}", cc, bc, strings.Join(mcs, "; "), en, bh)
	}
	var decoded proto.Message
	o := h.wireRun(claim, ops, func(m proto.Message) error { decoded = m; return vb(m) })
	out := []mcase{g.cv("I_Claim ("+claimCoq+")", o)}
	if o.Class == "ok" {
		dc := decoded.(crosschaintypes.ExternalClaim)
		d := guard(func() error { _ = dc.GetClaimer(); _ = dc.ClaimHash(); return nil })
		g.mustPanic("claim.GetClaimer/ClaimHash", d, claimCoq)
		out = append(out, mcase{coq: fmt.Sprintf("CMust_Claimer (%s) %v", claimCoq, d.Class == "ok"), obs: d})
		if bcc != nil {
			m := decoded.(*crosschaintypes.MsgBridgeCallClaim)
			d := guard(func() error {
				_ = m.GetSenderAddr()
				_ = m.GetToAddr()
				_ = m.GetRefundAddr()
				_ = m.IsMemoSendCallTo()
				_ = m.MustData()
				_ = m.GetTokensAddr()
				return nil
			})
			g.mustPanic("MsgBridgeCallClaim address/data/memo getters", d, bccCoq)
			out = append(out, mcase{coq: fmt.Sprintf("CMust_ClaimAddr %s %v", bccCoq, d.Class == "ok"), obs: d})
			// many_to_one.go:BridgeTokenToBaseCoin builds sdk.NewCoin(bridgeDenom, msg.Amounts[i]) for every token
			d2 := guard(func() error {
				for i := range m.TokenContracts {
					_ = sdk.NewCoin("eth"+m.TokenContracts[i], m.Amounts[i])
				}
				return nil
			})
			g.mustPanic("sdk.NewCoin on MsgBridgeCallClaim amounts", d2, bccCoq)
			out = append(out, mcase{coq: fmt.Sprintf("CMust_ClaimAmounts %s %v", bccCoq, d2.Class == "ok"), obs: d2})
		}
	}
	// the wrapper: struct-level (a client-side constructed MsgClaim has the cached value; the wire never has: no UnpackInterfaces)
	wc, wv := g.chain()
	switch r.Intn(4) {
	case 0:
		w := &crosschaintypes.MsgClaim{ChainName: wv, BridgerAddress: bv}
		out = append(out, g.cv(fmt.Sprintf("I_MsgClaim {| mc_chain := %s; mc_claim := AnyNil |}", wc), guard(w.ValidateBasic)))
	case 1:
		w := &crosschaintypes.MsgClaim{ChainName: wv, BridgerAddress: bv, Claim: mustAny(&banktypes.MsgSend{})}
		out = append(out, g.cv(fmt.Sprintf("I_MsgClaim {| mc_chain := %s; mc_claim := AnyOther |}", wc), guard(w.ValidateBasic)))
		// from the wire the claim is never unpacked: same class
		out = append(out, g.cv(fmt.Sprintf("I_MsgClaim {| mc_chain := %s; mc_claim := AnyOther |}", wc), h.wireRun(&crosschaintypes.MsgClaim{ChainName: wv, BridgerAddress: bv, Claim: mustAny(claim)}, nil, vb)))
	default:
		if len(ops) == 0 { // nil numbers cannot be put into a struct-level Any without the wire
			w := &crosschaintypes.MsgClaim{ChainName: wv, BridgerAddress: bv, Claim: mustAny(claim)}
			out = append(out, g.cv(fmt.Sprintf("I_MsgClaim {| mc_chain := %s; mc_claim := AnyIs (%s) |}", wc, claimCoq), guard(w.ValidateBasic)))
		}
	}
	return out
}

func (g *mgen) confirmWrapper() []mcase {
	h := g.h
	inner := &crosschaintypes.MsgOracleSetConfirm{Nonce: 1, BridgerAddress: h.p.accOK[0], ExternalAddress: h.p.ethOK[0], Signature: "aa", ChainName: "eth"}
	srv := h.c.X("eth").Msg()
	call := func(m *crosschaintypes.MsgConfirm) outcome {
		ctx, _ := h.c.Ctx.CacheContext()
		return guard(func() error { _, err := srv.Confirm(ctx, m); return err })
	}
	switch h.r.Intn(3) {
	case 0:
		// from the wire: field 3 absent
		var o outcome
		o = h.wireRun(&crosschaintypes.MsgConfirm{ChainName: "eth", BridgerAddress: h.p.accOK[0], Confirm: mustAny(inner)}, []wireOp{{Path: []wstep{{3, 0}}, Op: "drop"}},
			func(m proto.Message) error {
				o2 := call(m.(*crosschaintypes.MsgConfirm))
				if o2.Class == "panic" {
					panic(o2.Msg)
				}
				if o2.Class == "err" {
					return fmt.Errorf("%s", o2.Msg)
				}
				return nil
			})
		return []mcase{g.cv("I_MsgConfirm {| mw_confirm := AnyNil |}", o)}
	case 1:
		// from the wire the inner confirm is never unpacked (no UnpackInterfaces): "other"
		o := h.wireRun(&crosschaintypes.MsgConfirm{ChainName: "eth", BridgerAddress: h.p.accOK[0], Confirm: mustAny(inner)}, nil,
			func(m proto.Message) error {
				o2 := call(m.(*crosschaintypes.MsgConfirm))
				if o2.Class == "err" {
					return fmt.Errorf("%s", o2.Msg)
				}
				return nil
			})
		return []mcase{g.cv("I_MsgConfirm {| mw_confirm := AnyOther |}", o)}
	default:
		o := call(&crosschaintypes.MsgConfirm{ChainName: "eth", BridgerAddress: h.p.accOK[0], Confirm: mustAny(&banktypes.MsgSend{})})
		return []mcase{g.cv("I_MsgConfirm {| mw_confirm := AnyOther |}", o)}
	}
}

func (g *mgen) bridgeCall() []mcase {
	h := g.h
	r := h.r
	cc, cv := g.chain()
	sc, sv := g.bech(0)
	rid := 0
	if r.Chance(50) {
		rid = 1
	}
	rc, rv := g.bech(rid)
	if r.Chance(25) {
		rc, rv = "BEmpty", ""
	}
	tc, tv := g.ext(cc)
	dc, dv := g.hexs(2)
	mc, mv := g.hexs(r.Intn(3))
	if r.Chance(g.ok) {
		mc, mv = []string{"HEmpty", "HGood"}[r.Intn(2)], ""
		if mc == "HGood" {
			mv = "01"
		}
	}
	vc, vv := g.intv(2)
	m := &crosschaintypes.MsgBridgeCall{ChainName: cv, Sender: sv, Refund: rv, To: tv, Data: dv, Value: vv.v, Memo: mv}
	var ops []wireOp
	var ccs []string
	n := r.Intn(4)
	last := -1
	for i := 0; i < n; i++ {
		// denom ids ascending when valid-biased, otherwise free (unsorted / duplicate cases)
		ids := []int{last + 1}
		if !r.Chance(g.ok) || last+1 > 3 {
			ids = []int{0, 1, 2, 3}
		}
		c, coin, cnil := g.coin(3, ids)
		ccs = append(ccs, c)
		m.Coins = append(m.Coins, coin)
		if cnil {
			ops = append(ops, g.nilOp(wstep{fieldNum(m, "Coins"), i}, wstep{2, 0}))
		}
		for id, d := range denomByID {
			if d == coin.Denom && id < 10 {
				last = id
			}
		}
	}
	if vv.nil {
		ops = append(ops, g.nilOp(wstep{fieldNum(m, "Value"), 0}))
	}
	coq := fmt.Sprintf("{| mb_chain := %s; mb_sender := %s; mb_refund := %s; mb_coins := [%s]; mb_to := %s; mb_data := %s; mb_value := %s; mb_memo := %s |}", cc, sc, rc, strings.Join(ccs, "; "), tc, dc, vc, mc)
	var decoded proto.Message
	o := h.wireRun(m, ops, func(x proto.Message) error { decoded = x; return vb(x) })
	out := []mcase{g.cv("I_MsgBridgeCall "+coq, o)}
	if o.Class == "ok" {
		dm := decoded.(*crosschaintypes.MsgBridgeCall)
		d := guard(func() error {
			_ = dm.GetSenderAddr()
			_ = dm.GetRefundAddr()
			_ = dm.GetToAddr()
			_ = dm.MustData()
			_ = dm.MustMemo()
			return nil
		})
		g.mustPanic("MsgBridgeCall getters (GetSenderAddr/GetRefundAddr/GetToAddr/MustData/MustMemo)", d, coq)
		out = append(out, mcase{coq: fmt.Sprintf("CMust_BridgeCall %s %v", coq, d.Class == "ok"), obs: d})
	}
	return out
}

func (g *mgen) migrate() []mcase {
	h := g.h
	r := h.r
	from, to := h.p.keys[0], h.p.keys[1]
	fc, fv := g.bech(0)
	tc, tv := "XEth", to.Hex().Hex()
	if !r.Chance(g.ok) {
		tc, tv = g.ext("ChEth")
		if tc == "XEth" {
			tv = to.Hex().Hex()
		}
	}
	same := false
	if fc == "(BGood 0)" && tc == "XEth" && !r.Chance(g.ok) {
		same = true
		tv = common.BytesToAddress(from.Acc()).Hex()
	}
	sigc, sig := "SgOk", h.migrateSig(from, to)
	switch g.pick(0, 5) {
	case 1:
		sigc, sig = "SgEmpty", ""
	case 2:
		sigc, sig = "SgBadHex", "zz"
	case 3:
		sigc, sig = "SgUnrecoverable", []string{"00", strings.Repeat("00", 65), strings.Repeat("ff", 65), strings.Repeat("ab", 64)}[r.Intn(4)]
	case 4:
		sigc, sig = "SgOtherKey", h.migrateSig(from, h.p.keys[3])
	}
	if sigc == "SgOk" && (fc != "(BGood 0)" || tc != "XEth" || same) {
		// the signature is over (from, to): with another from/to it recovers another key
		sigc = "SgOtherKey"
	}
	if sigc == "SgOtherKey" && same {
		ek, _ := crypto.ToECDSA(to.Priv.Bytes())
		s, _ := crypto.Sign(migratetypes.MigrateAccountSignatureHash(from.Acc(), from.Acc()), ek)
		sig = fmt.Sprintf("%x", s)
	}
	m := &migratetypes.MsgMigrateAccount{From: fv, To: tv, Signature: sig}
	return []mcase{g.cv(fmt.Sprintf("I_MsgMigrateAccount {| mg_from := %s; mg_to := %s; mg_same := %v; mg_sig := %s |}", fc, tc, same, sigc), h.wireRun(m, nil, vb))}
}

func (g *mgen) precompileArgs() []mcase {
	h := g.h
	r := h.r
	// values exactly as the ABI decoder delivers them: arguments are packed with go-ethereum and parsed by the real ParseMethodArgs
	big := func(validClass int) (string, interface{}) {
		switch g.pick(validClass, 2) {
		case 0:
			return "BgZero", bigZero()
		default:
			if r.Chance(30) {
				return "BgPos", two256m1
			}
			return "BgPos", bigInt(1 + int64(r.Intn(1000)))
		}
	}
	valS := func() (string, string) { return g.val() }
	mn := func() (string, string) {
		if g.pick(1, 2) == 1 {
			return "true", []string{"eth", "tron", "nochain", "a1", "x/y"}[r.Intn(5)]
		}
		return "false", []string{"", "1eth", "e", "eth ", strings.Repeat("a", 40), "é"}[r.Intn(6)]
	}
	addr := func() (string, common.Address) {
		if g.pick(0, 2) == 1 {
			return "true", common.Address{}
		}
		return "false", h.p.keys[r.Intn(len(h.p.keys))].Hex()
	}
	run := func(contractName, method string, args fxevmtypes.MethodArgs, vals ...interface{}) outcome {
		var a = stakingtypes.GetABI()
		if contractName == "crosschain" {
			a = crosschaintypes.GetABI()
		}
		mth := a.Methods[method]
		data, err := mth.Inputs.Pack(vals...)
		if err != nil {
			return outcome{Class: "err", Msg: "harness: pack: " + err.Error()}
		}
		return guard(func() error { return fxevmtypes.ParseMethodArgs(mth, args, data) })
	}
	if r.Chance(50) {
		switch r.Intn(5) {
		case 0:
			vc, vv := valS()
			which := r.Intn(5)
			var o outcome
			switch which {
			case 0:
				o = run("staking", "allowanceShares", new(stakingtypes.AllowanceSharesArgs), vv, h.p.keys[0].Hex(), h.p.keys[1].Hex())
			case 1:
				o = run("staking", "delegation", new(stakingtypes.DelegationArgs), vv, h.p.keys[0].Hex())
			case 2:
				o = run("staking", "delegationRewards", new(stakingtypes.DelegationRewardsArgs), vv, h.p.keys[0].Hex())
			case 3:
				o = run("staking", "withdraw", new(stakingtypes.WithdrawArgs), vv)
			default:
				o = run("staking", "slashingInfo", new(stakingtypes.SlashingInfoArgs), vv)
			}
			return []mcase{g.cv(fmt.Sprintf("I_StakingArgs (SA_ValOnly %s)", vc), o)}
		case 1:
			vc, vv := valS()
			bc, bv := big(r.Intn(2))
			return []mcase{g.cv(fmt.Sprintf("I_StakingArgs (SA_ValSharesNonNeg %s %s)", vc, bc), run("staking", "approveShares", new(stakingtypes.ApproveSharesArgs), vv, h.p.keys[1].Hex(), bv))}
		case 2:
			vc, vv := valS()
			bc, bv := big(1)
			var o outcome
			switch r.Intn(4) {
			case 0:
				o = run("staking", "delegateV2", new(stakingtypes.DelegateV2Args), vv, bv)
			case 1:
				o = run("staking", "undelegateV2", new(stakingtypes.UndelegateV2Args), vv, bv)
			case 2:
				o = run("staking", "transferShares", new(stakingtypes.TransferSharesArgs), vv, h.p.keys[1].Hex(), bv)
			default:
				o = run("staking", "transferFromShares", new(stakingtypes.TransferFromSharesArgs), vv, h.p.keys[0].Hex(), h.p.keys[1].Hex(), bv)
			}
			return []mcase{g.cv(fmt.Sprintf("I_StakingArgs (SA_ValAmountPos %s %s)", vc, bc), o)}
		case 3:
			sc, sv := valS()
			dc, dv := valS()
			bc, bv := big(1)
			return []mcase{g.cv(fmt.Sprintf("I_StakingArgs (SA_Redelegate %s %s %s)", sc, dc, bc), run("staking", "redelegateV2", new(stakingtypes.RedelegateV2Args), sv, dv, bv))}
		default:
			k := uint8([]int{0, 1, 2, 255}[r.Intn(4)])
			return []mcase{g.cv(fmt.Sprintf("I_StakingArgs (SA_ValidatorList %d)", k), run("staking", "validatorList", new(stakingtypes.ValidatorListArgs), k))}
		}
	}
	b32 := func() (string, [32]byte) {
		var t [32]byte
		if g.pick(0, 2) == 1 {
			return "true", t
		}
		copy(t[:], "eth")
		return "false", t
	}
	switch r.Intn(7) {
	case 0:
		zc, zv := b32()
		return []mcase{g.cv(fmt.Sprintf("I_CrosschainArgs (CA_BridgeCoinAmount %s)", zc), run("crosschain", "bridgeCoinAmount", new(crosschaintypes.BridgeCoinAmountArgs), h.p.keys[0].Hex(), zv))}
	case 1:
		mc, mv := mn()
		tc, tv := big(1)
		return []mcase{g.cv(fmt.Sprintf("I_CrosschainArgs (CA_CancelSendToExternal %s %s)", mc, tc), run("crosschain", "cancelSendToExternal", new(crosschaintypes.CancelSendToExternalArgs), mv, tv))}
	case 2:
		re := g.pick(0, 2) == 1
		receipt := h.p.ethOK[0]
		if re {
			receipt = ""
		}
		ac, av := big(1)
		fc, fv := big(r.Intn(2))
		zc, zv := b32()
		ovf := new(bigIntT).Add(av.(*bigIntT), fv.(*bigIntT)).BitLen() > 256
		return []mcase{g.cv(fmt.Sprintf("I_CrosschainArgs (CA_CrossChain %v %s %s %v %s)", re, ac, fc, ovf, zc), run("crosschain", "crossChain", new(crosschaintypes.CrossChainArgs), h.p.keys[0].Hex(), receipt, av, fv, zv, "memo"))}
	case 3:
		mc, mv := mn()
		tc, tv := big(1)
		fc, fv := big(1)
		return []mcase{g.cv(fmt.Sprintf("I_CrosschainArgs (CA_IncreaseBridgeFee %s %s %s)", mc, tc, fc), run("crosschain", "increaseBridgeFee", new(crosschaintypes.IncreaseBridgeFeeArgs), mv, tv, h.p.keys[0].Hex(), fv))}
	case 4:
		mc, mv := mn()
		vc, vv := big(0)
		nt := r.Intn(3)
		na := nt
		if !r.Chance(g.ok) {
			na = r.Intn(3)
		}
		rz, rv := addr()
		return []mcase{g.bridgeCallArgsCase(mc, mv, vc, vv, nt, na, rz, rv)}
	case 5:
		mc, mv := mn()
		nc, nv := big(1)
		return []mcase{g.cv(fmt.Sprintf("I_CrosschainArgs (CA_ExecuteClaim %s %s)", mc, nc), run("crosschain", "executeClaim", new(crosschaintypes.ExecuteClaimArgs), mv, nv))}
	default:
		mc, mv := mn()
		zc, zv := addr()
		if r.Chance(50) {
			return []mcase{g.cv(fmt.Sprintf("I_CrosschainArgs (CA_OracleQuery %s %s)", mc, zc), run("crosschain", "hasOracle", new(crosschaintypes.HasOracleArgs), mv, zv))}
		}
		return []mcase{g.cv(fmt.Sprintf("I_CrosschainArgs (CA_OracleQuery %s %s)", mc, zc), run("crosschain", "isOracleOnline", new(crosschaintypes.IsOracleOnlineArgs), mv, zv))}
	}
}

// updateStoreCases: a MsgUpdateStore with the given (class, text) triples key/old/value per store, decoded from the wire;
// after an accepted ValidateBasic the real ...ToBytes helpers are applied to every entry.
func (g *mgen) updateStoreCases(authority, authorityCoq string, spaces []string, fields [][3]struct{ c, v string }) []mcase {
	h := g.h
	var scs []string
	var stores []fxgovtypes.UpdateStore
	for i, f := range fields {
		scs = append(scs, fmt.Sprintf("{| st_space_empty := %v; st_key := %s; st_old := %s; st_value := %s |}", spaces[i] == "", f[0].c, f[1].c, f[2].c))
		stores = append(stores, fxgovtypes.UpdateStore{Space: spaces[i], Key: f[0].v, OldValue: f[1].v, Value: f[2].v})
	}
	m := &fxgovtypes.MsgUpdateStore{Authority: authority, UpdateStores: stores}
	var decoded *fxgovtypes.MsgUpdateStore
	o := h.wireRun(m, nil, func(x proto.Message) error { decoded = x.(*fxgovtypes.MsgUpdateStore); return vb(x) })
	out := []mcase{g.cv(fmt.Sprintf("I_MsgUpdateStore {| us_authority := %s; us_stores := [%s] |}", authorityCoq, strings.Join(scs, "; ")), o)}
	if o.Class == "ok" {
		for i := range decoded.UpdateStores {
			s := decoded.UpdateStores[i]
			d := guard(func() error { s.KeyToBytes(); s.OldValueToBytes(); s.ValueToBytes(); return nil })
			g.mustPanic("UpdateStore.KeyToBytes/OldValueToBytes/ValueToBytes", d, scs[i])
			out = append(out, mcase{coq: fmt.Sprintf("CMust_Store %s %v", scs[i], d.Class == "ok"), obs: d})
		}
	}
	return out
}

// bridgeCallArgsCase: BridgeCallArgs decoded by the real ParseMethodArgs from ABI-packed call data with nt tokens and na amounts.
func (g *mgen) bridgeCallArgsCase(mc, mv, vc string, vv interface{}, nt, na int, rz string, rv common.Address) mcase {
	mth := crosschaintypes.GetABI().Methods["bridgeCall"]
	data, err := mth.Inputs.Pack(mv, rv, make([]common.Address, nt), makeBigs(na), g.h.p.keys[2].Hex(), []byte{1}, vv, []byte{})
	var o outcome
	if err != nil {
		o = outcome{Class: "err", Msg: "harness: pack: " + err.Error()}
	} else {
		o = guard(func() error { return fxevmtypes.ParseMethodArgs(mth, new(crosschaintypes.BridgeCallArgs), data) })
	}
	return g.cv(fmt.Sprintf("I_CrosschainArgs (CA_BridgeCall %s %s %d %d %s)", mc, vc, nt, na, rz), o)
}

func (g *mgen) ibcMemo() []mcase {
	h := g.h
	tc, tv := g.ext("ChEth")
	vc, vv := g.intv(2 + h.r.Intn(2))
	if vv.nil {
		// the memo is JSON: an absent "value" is decoded to a freshly allocated zero Int (never nil), "" and null are
		// decode errors. The nil class of the model is not producible through UnmarshalInterfaceJSON.
		vc, vv = "IZero", intConc{sdkmath.ZeroInt(), false}
	}
	dc, dv := g.hexs(h.r.Intn(3))
	val := fmt.Sprintf(`,"value":"%s"`, vv.v.String())
	if vc == "IZero" && h.r.Chance(50) {
		val = ""
	}
	memo := fmt.Sprintf(`{"@type":"/fx.ibc.applications.transfer.v1.IbcCallEvmPacket","to":%q%s,"data":%q}`, tv, val, dv)
	var pkt ibcmwtypes.MemoPacket
	o := guard(func() error {
		var mp ibcmwtypes.MemoPacket
		if err := h.c.App.AppCodec().UnmarshalInterfaceJSON([]byte(memo), &mp); err != nil {
			return fmt.Errorf("harness: memo json: %w", err)
		}
		pkt = mp
		return mp.ValidateBasic()
	})
	if strings.HasPrefix(o.Msg, "harness:") {
		return nil
	}
	coq := fmt.Sprintf("{| ic_to := %s; ic_value := %s; ic_data := %s |}", tc, vc, dc)
	out := []mcase{g.cv("I_IbcCallEvmPacket "+coq, o)}
	if o.Class == "panic" {
		h.fail("validate", "recovered-by-baseapp", o, "IbcCallEvmPacket.ValidateBasic panics on an IBC memo",
			map[string]interface{}{"stage": "model", "memo": memo, "panic": o.Msg, "top_frame": o.Top})
	}
	if o.Class == "ok" {
		p := pkt.(*ibcmwtypes.IbcCallEvmPacket)
		if d := guard(func() error { _ = p.MustGetData(); _ = p.GetToAddress(); _ = p.Value.BigInt(); return nil }); d.Class == "panic" {
			h.fail("handler", "recovered-by-baseapp", d, "IbcCallEvmPacket getters panic after ValidateBasic", map[string]interface{}{"stage": "model", "memo": memo, "panic": d.Msg})
		}
	}
	return out
}

func (g *mgen) targets() []mcase {
	h := g.h
	r := h.r
	var out []mcase
	// ParseFxTarget by branch
	pfx := []string{"px", "cosmos", "0x"}[r.Intn(3)]
	type tc struct{ coq, s string }
	cands := []tc{
		{"TgLegacyErc20", "module/evm"},
		{"TgGravity", []string{"gravity", "chain/gravity"}[r.Intn(2)]},
		{"(TgIbc3 true)", "ibc/" + strconv.Itoa(r.Intn(100)) + "/" + pfx},
		{"(TgIbc3 false)", []string{"ibc/x/" + pfx, "ibc/0/ ", "ibc/-1/px", "ibc//px"}[r.Intn(4)]},
		{"(TgIbc4 true)", "ibc/" + pfx + "/transfer/channel-" + strconv.Itoa(r.Intn(100))},
		{"(TgIbc4 false)", []string{"ibc/px/icahost/channel-0", "ibc/px/transfer/channel-x", "ibc/ /transfer/channel-0"}[r.Intn(3)]},
		{"TgIbcOther", []string{"ibc/", "ibc/a", "ibc/a/b/c/d", "ibc/////"}[r.Intn(4)]},
		{"(TgPlain3 true)", pfx + "/transfer/channel-" + strconv.Itoa(r.Intn(100))},
		{"(TgPlain3 false)", []string{"a/b/c", "px/transfer/channel", "/transfer/channel-0", "chain/px/transfer"}[r.Intn(4)]},
		{"TgOther", []string{"", "eth", "chain/bsc", "tron", "a/b", "a/b/c/d", "erc20", "module/evm/"}[r.Intn(8)]},
	}
	c := cands[r.Intn(len(cands))]
	var got string
	o := guard(func() error {
		t := fxtypes.ParseFxTarget(c.s)
		switch {
		case t.IsIBC():
			got = "ToIBC"
		case t.GetTarget() == fxtypes.ERC20Target && c.s == fxtypes.LegacyERC20Target:
			got = "ToErc20"
		case t.GetTarget() == fxtypes.EthTarget && c.coq == "TgGravity":
			got = "ToEth"
		default:
			got = "ToPlain"
		}
		return nil
	})
	if o.Class == "ok" {
		out = append(out, mcase{coq: fmt.Sprintf("CTarget %s %s", c.coq, got), obs: o})
	}
	// ParseAddress by branch
	type ac struct{ coq, s string }
	bech, _ := sdk.Bech32ifyAddressBytes([]string{"fx", "cosmos", "px"}[r.Intn(3)], randBytes(r, 20))
	acands := []ac{{"AdBech32", bech}, {"AdEth", h.p.ethOK[r.Intn(len(h.p.ethOK))]}, {"AdNeither", []string{"", strings.ToLower(h.p.ethOK[0]), "xyz", h.p.tronOK[0]}[r.Intn(4)]}}
	a := acands[r.Intn(len(acands))]
	var agot string
	o = guard(func() error {
		_, isEvm, err := fxtypes.ParseAddress(a.s)
		switch {
		case err != nil:
			agot = "AoErr"
		case isEvm:
			agot = "AoEvm"
		default:
			agot = "AoAcc"
		}
		return nil
	})
	if o.Class == "ok" {
		out = append(out, mcase{coq: fmt.Sprintf("CAddress %s %s", a.coq, agot), obs: o})
	}
	return out
}

func (h *harness) stageModel() {
	n := 2600
	if h.scale > 3 {
		n = 2600 * 3 // the Coq evaluation is the bottleneck: keep the file bounded
	}
	var items []string
	strict := os.Getenv("VERIF_STRICT") != ""
	for i := 0; i < n; i++ {
		g := &mgen{h: h, ok: []int{92, 85, 70, 40}[h.r.Intn(4)]}
		kind := h.r.Intn(41)
		for _, c := range g.one(kind) {
			if strings.HasPrefix(c.obs.Msg, "harness:") {
				h.rep.Count("model:harness-skip")
				continue
			}
			items = append(items, c.coq)
			head := strings.SplitN(strings.TrimPrefix(c.coq, "CV ("), " ", 2)[0]
			h.rep.Count("model:" + c.obs.Class)
			h.rep.Case(fmt.Sprintf("model|%s|%s|%s", head, c.obs.Class, short(strings.SplitN(c.obs.Msg, ":", 2)[0], 40)), true)
		}
	}
	// deterministic grid: paired arrays of the bridgeCall precompile (every length combination 0..2, zero / non-zero refund)
	{
		g := &mgen{h: h, ok: 100}
		for nt := 0; nt <= 2; nt++ {
			for na := 0; na <= 2; na++ {
				for _, rz := range []bool{false, true} {
					rv := h.p.keys[0].Hex()
					if rz {
						rv = common.Address{}
					}
					c := g.bridgeCallArgsCase("true", "eth", "BgZero", bigZero(), nt, na, fmt.Sprint(rz), rv)
					items = append(items, c.coq)
					h.rep.Count("model:" + c.obs.Class)
					h.rep.Case(fmt.Sprintf("model|grid|CA_BridgeCall|%d|%d|%v|%s", nt, na, rz, c.obs.Class), true)
				}
			}
		}
	}
	// deterministic grid: MsgUpdateStore hex fields, every class representative in every field (the handler decodes them
	// with KeyToBytes/OldValueToBytes/ValueToBytes)
	{
		g := &mgen{h: h, ok: 100}
		reps := []struct{ c, v string }{{"HEmpty", ""}, {"HGood", "01"}, {"HGood", "ABcd"}, {"HBad", "0"}, {"HBad", "abc"}, {"HBad", "0x00"}, {"HBad", "-"}, {"HBad", "zz"}, {"HBad", "00 "}}
		for fi := 0; fi < 3; fi++ {
			for _, rp := range reps {
				f := [3]struct{ c, v string }{{"HGood", "01"}, {"HEmpty", ""}, {"HGood", "02"}}
				f[fi] = rp
				for _, c := range g.updateStoreCases(h.p.accOK[0], "(BGood 0)", []string{"bank"}, [][3]struct{ c, v string }{f}) {
					items = append(items, c.coq)
					h.rep.Count("model:" + c.obs.Class)
					h.rep.Case(fmt.Sprintf("model|grid|MsgUpdateStore|%d|%s|%s", fi, rp.v, c.obs.Class), true)
				}
			}
		}
	}
	// deterministic grid: crossChain amount / fee at the 256-bit boundary (CrossChainArgs.Validate, fb9127f)
	{
		g := &mgen{h: h, ok: 100}
		mth := crosschaintypes.GetABI().Methods["crossChain"]
		var tgt [32]byte
		copy(tgt[:], "eth")
		vals := []struct {
			c string
			v *bigIntT
		}{{"BgZero", new(bigIntT)}, {"BgPos", new(bigIntT).SetInt64(1)}, {"BgPos", two255}, {"BgPos", two256m1}}
		for _, a := range vals {
			for _, f := range vals {
				data, err := mth.Inputs.Pack(h.p.keys[0].Hex(), h.p.ethOK[0], a.v, f.v, tgt, "memo")
				if err != nil {
					continue
				}
				o := guard(func() error { return fxevmtypes.ParseMethodArgs(mth, new(crosschaintypes.CrossChainArgs), data) })
				ovf := new(bigIntT).Add(a.v, f.v).BitLen() > 256
				c := g.cv(fmt.Sprintf("I_CrosschainArgs (CA_CrossChain false %s %s %v false)", a.c, f.c, ovf), o)
				items = append(items, c.coq)
				h.rep.Count("model:" + c.obs.Class)
				h.rep.Case(fmt.Sprintf("model|grid|CA_CrossChain|%s|%s|%s", short(a.v.String(), 6), short(f.v.String(), 6), c.obs.Class), true)
			}
		}
	}
	fn := "c_mismatch"
	if strict {
		fn = "c_mismatch_strict"
	}
	libWriteCases("Cases_C20v.v", []string{"model.M_Validate", "model.M_ValidateCorr"}, "ccase", items, fn)
}

func bigZero() interface{}       { return new(bigIntT) }
func bigInt(n int64) interface{} { return new(bigIntT).SetInt64(n) }
func makeBigs(n int) []*bigIntT {
	out := make([]*bigIntT, n)
	for i := range out {
		out[i] = new(bigIntT).SetInt64(int64(i + 1))
	}
	return out
}

func libWriteCases(name string, imports []string, elem string, items []string, fn string) {
	lib.WriteCases(name, imports, elem, items, fn)
}
