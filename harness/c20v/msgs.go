package main

// msgs.go: stage (i) — every registered fx-core message type (and the ethermint ones fx wraps):
// structure-aware instances (reflection filler), their encodings, wire-level mutations and raw random
// bytes are decoded with the application's interface registry (exactly what the tx decoder does to a
// message Any) and then handed to the REAL ValidateBasic / GetMsgV1Signers / legacy GetSigners under recover.

import (
	"fmt"
	"math/big"
	"reflect"
	"sort"
	"strings"
	"time"

	sdkmath "cosmossdk.io/math"
	codectypes "github.com/cosmos/cosmos-sdk/codec/types"
	cryptotypes "github.com/cosmos/cosmos-sdk/crypto/types"
	sdk "github.com/cosmos/cosmos-sdk/types"
	"github.com/cosmos/cosmos-sdk/types/tx/signing"
	banktypes "github.com/cosmos/cosmos-sdk/x/bank/types"
	"github.com/cosmos/gogoproto/proto"
	ethtypes "github.com/ethereum/go-ethereum/core/types"
	evmtypes "github.com/evmos/ethermint/x/evm/types"

	crosschaintypes "github.com/functionx/fx-core/v8/x/crosschain/types"

	"fxverif/lib"
)

var (
	tInt      = reflect.TypeOf(sdkmath.Int{})
	tDec      = reflect.TypeOf(sdkmath.LegacyDec{})
	tCoin     = reflect.TypeOf(sdk.Coin{})
	tAnyPtr   = reflect.TypeOf(&codectypes.Any{})
	tDuration = reflect.TypeOf(time.Duration(0))
	tTime     = reflect.TypeOf(time.Time{})
)

type filler struct {
	r     *lib.Rand
	p     *pools
	valid int    // percent chance that a field gets a value of the class its name suggests
	chain string // chain name chosen for this instance (drives the flavour of external addresses)
	depth int
}

func (f *filler) chainIsTron() bool { return f.chain == "tron" }

func (f *filler) extOK() string {
	if f.chainIsTron() {
		return f.p.tronOK[f.r.Intn(len(f.p.tronOK))]
	}
	return f.p.ethOK[f.r.Intn(len(f.p.ethOK))]
}

func (f *filler) extBad() string {
	if f.r.Chance(15) {
		return ""
	}
	if f.chainIsTron() {
		return f.p.badTron(f.r)
	}
	return f.p.badEth(f.r)
}

// anyString: a string of an arbitrary class (used when the field name suggests nothing, or against the suggestion).
func (f *filler) anyString() string {
	r := f.r
	switch r.Intn(16) {
	case 0:
		return ""
	case 1:
		return f.p.accOK[r.Intn(len(f.p.accOK))]
	case 2:
		return f.p.valOK[r.Intn(len(f.p.valOK))]
	case 3:
		return f.p.ethOK[r.Intn(len(f.p.ethOK))]
	case 4:
		return f.p.tronOK[r.Intn(len(f.p.tronOK))]
	case 5:
		return f.p.badAcc(r)
	case 6:
		return f.p.badEth(r)
	case 7:
		return f.p.badTron(r)
	case 8:
		return goodHex(r)
	case 9:
		return badHex(r)
	case 10:
		return []string{"FX", "eth0x0000000000000000000000000000000000000001", "ibc/" + strings.Repeat("A", 64), "a", "1abc", "usdt"}[r.Intn(6)]
	case 11:
		return []string{"0.5", "1.000000000000000001", "-0.1", "1e3", "NaN", "0.3340000000000000001", "2"}[r.Intn(7)]
	case 12:
		return strings.Repeat("A", 1+r.Intn(300))
	case 13:
		return string(randBytes(r, 1+r.Intn(50)))
	case 14:
		return []string{"/cosmos.bank.v1beta1.MsgSend", "/fx.gravity.crosschain.v1.MsgBridgeCall", "0x1004", "0x0000000000000000000000000000000000001003"}[r.Intn(4)]
	default:
		return randPrintable(r, 1+r.Intn(40))
	}
}

func (f *filler) str(name string) string {
	r := f.r
	n := strings.ToLower(name)
	if !r.Chance(f.valid) {
		return f.anyString()
	}
	switch {
	case n == "chainname":
		return f.chain
	case n == "validatoraddress" || n == "delegatevalidator":
		return f.p.valOK[r.Intn(len(f.p.valOK))]
	case n == "externaladdress" || n == "tokencontract" || n == "dest" || n == "feereceive" || n == "txorigin" || n == "contract":
		return f.extOK()
	case n == "to" || n == "sender" || n == "refund":
		// crosschain claims carry external addresses here, user messages carry bech32 ones
		if r.Chance(50) {
			return f.extOK()
		}
		return f.p.accOK[r.Intn(len(f.p.accOK))]
	case n == "contractaddress" || n == "erc20address" || n == "token":
		return f.p.ethOK[r.Intn(len(f.p.ethOK))]
	case strings.HasSuffix(n, "address") || n == "authority" || n == "receiver" || n == "from":
		if n == "receiver" && r.Chance(30) {
			return f.p.ethOK[r.Intn(len(f.p.ethOK))]
		}
		return f.p.accOK[r.Intn(len(f.p.accOK))]
	case n == "signature" || n == "data" || n == "memo" || n == "cause" || n == "targetibc" || n == "channelibc" || n == "key" || n == "value" || n == "oldvalue":
		if r.Chance(20) {
			return ""
		}
		return goodHex(r)
	case n == "denom" || n == "alias" || n == "base" || n == "display":
		return []string{"FX", "usdt", "eth0x0000000000000000000000000000000000000001", "ibc/" + strings.Repeat("A", 64)}[r.Intn(4)]
	case n == "quorum" || n == "depositratio":
		return []string{"0.25", "0", "1", "0.334"}[r.Intn(4)]
	case n == "gravityid":
		return "fx-gravity-id"
	case n == "msgurl":
		return "/fx.erc20.v1.MsgRegisterCoin"
	case n == "name" || n == "symbol" || n == "space" || n == "description":
		return []string{"Tether USD", "USDT", "bank", "x"}[r.Intn(4)]
	}
	return f.anyString()
}

func (f *filler) intVal(name string) sdkmath.Int {
	r := f.r
	k := r.Intn(10)
	if r.Chance(f.valid) {
		k = 5 + r.Intn(2)
		if strings.EqualFold(name, "value") {
			k = 3
		}
	}
	switch k {
	case 0:
		return sdkmath.Int{} // nil
	case 1:
		return sdkmath.NewInt(-1)
	case 2:
		return sdkmath.NewIntFromBigInt(new(big.Int).Neg(new(big.Int).Lsh(big.NewInt(1), 200)))
	case 3:
		return sdkmath.ZeroInt()
	case 4:
		return sdkmath.NewIntFromBigInt(new(big.Int).Sub(new(big.Int).Lsh(big.NewInt(1), 256), big.NewInt(1)))
	case 5:
		return sdkmath.NewInt(1 + int64(r.Intn(1_000_000)))
	default:
		return sdkmath.NewInt(1).MulRaw(1e18).MulRaw(1 + int64(r.Intn(20000)))
	}
}

func (f *filler) decVal(name string) sdkmath.LegacyDec {
	r := f.r
	k := r.Intn(8)
	if r.Chance(f.valid) {
		k = 4 + r.Intn(2)
	}
	switch k {
	case 0:
		return sdkmath.LegacyDec{}
	case 1:
		return sdkmath.LegacyNewDecWithPrec(-1, 18)
	case 2:
		return sdkmath.LegacyNewDecWithPrec(1, 0).Add(sdkmath.LegacyNewDecWithPrec(1, 18)) // 1 + 1e-18
	case 3:
		return sdkmath.LegacyNewDec(1_000_000)
	case 4:
		return sdkmath.LegacyNewDecWithPrec(int64(r.Intn(11)), 1)
	case 5:
		return sdkmath.LegacyOneDec()
	default:
		return sdkmath.LegacyZeroDec()
	}
}

func (f *filler) coin(name string) sdk.Coin {
	return sdk.Coin{Denom: f.str("denom"), Amount: f.intVal(name)}
}

func (f *filler) u64(name string) uint64 {
	r := f.r
	if r.Chance(f.valid) {
		n := strings.ToLower(name)
		switch {
		case strings.Contains(n, "timeout") && !strings.Contains(n, "height"):
			return 3_600_001 + uint64(r.Intn(1_000_000_000))
		case n == "averageblocktime" || n == "averageexternalblocktime":
			return 100 + uint64(r.Intn(10_000))
		case n == "signedwindow" || n == "ibctransfertimeoutheight":
			return 2 + uint64(r.Intn(50_000))
		}
		return 1 + uint64(r.Intn(100_000))
	}
	return r.U64Edge()
}

func (f *filler) i64(name string) int64 {
	r := f.r
	if r.Chance(f.valid) {
		return 1 + int64(r.Intn(100))
	}
	return int64(r.U64Edge())
}

// fill sets every settable field of v (a struct value) recursively.
func (f *filler) fill(v reflect.Value) {
	if f.depth > 5 {
		return
	}
	f.depth++
	defer func() { f.depth-- }()
	t := v.Type()
	for i := 0; i < t.NumField(); i++ {
		sf := t.Field(i)
		if sf.PkgPath != "" || strings.HasPrefix(sf.Name, "XXX_") {
			continue
		}
		f.set(v.Field(i), sf.Name)
	}
}

func (f *filler) set(fv reflect.Value, name string) {
	r := f.r
	t := fv.Type()
	switch {
	case t == tInt:
		fv.Set(reflect.ValueOf(f.intVal(name)))
		return
	case t == tDec:
		fv.Set(reflect.ValueOf(f.decVal(name)))
		return
	case t == tCoin:
		fv.Set(reflect.ValueOf(f.coin(name)))
		return
	case t == tAnyPtr:
		fv.Set(reflect.ValueOf(f.anyValue(name)))
		return
	case t == tDuration:
		d := time.Duration(f.i64(name)) * time.Second
		if !r.Chance(f.valid) {
			d = []time.Duration{0, -1, time.Duration(1<<63 - 1), -time.Second}[r.Intn(4)]
		}
		fv.Set(reflect.ValueOf(d))
		return
	case t == tTime:
		fv.Set(reflect.ValueOf(time.Unix(int64(r.Intn(2_000_000_000)), 0).UTC()))
		return
	}
	switch t.Kind() {
	case reflect.String:
		fv.SetString(f.str(name))
	case reflect.Bool:
		fv.SetBool(r.Chance(50))
	case reflect.Uint64, reflect.Uint32, reflect.Uint8, reflect.Uint16, reflect.Uint:
		u := f.u64(name)
		if t.Kind() == reflect.Uint32 {
			u &= 0xffffffff
		}
		if t.Kind() == reflect.Uint8 {
			u &= 0xff
		}
		fv.SetUint(u)
	case reflect.Int64, reflect.Int32, reflect.Int:
		n := f.i64(name)
		if t.Kind() == reflect.Int32 {
			n = int64(int32(n))
		}
		fv.SetInt(n)
	case reflect.Float64, reflect.Float32:
		fv.SetFloat(float64(r.Intn(1000)))
	case reflect.Struct:
		f.fill(fv)
	case reflect.Ptr:
		if r.Chance(100-f.valid) && r.Chance(50) {
			return // nil
		}
		if t.Elem().Kind() == reflect.Struct || t.Elem() == tDuration {
			nv := reflect.New(t.Elem())
			if t.Elem() == tDuration {
				f.set(nv.Elem(), name)
			} else if t.Elem() == tInt {
				nv.Elem().Set(reflect.ValueOf(f.intVal(name)))
			} else {
				f.fill(nv.Elem())
			}
			fv.Set(nv)
		}
	case reflect.Slice:
		if t.Elem().Kind() == reflect.Uint8 {
			fv.SetBytes(randBytes(r, r.Intn(40)))
			return
		}
		n := []int{0, 1, 1, 2, 3}[r.Intn(5)]
		if strings.EqualFold(name, "oracles") && t.Elem().Kind() == reflect.String && f.depth > 1 {
			n = 0 // Params.Oracles is deprecated: must stay empty in a valid instance
			if !r.Chance(f.valid) {
				n = 1
			}
		}
		sl := reflect.MakeSlice(t, n, n)
		for i := 0; i < n; i++ {
			ename := name
			if t.Elem().Kind() == reflect.String {
				ename = strings.TrimSuffix(name, "s")
				if strings.EqualFold(name, "oracles") {
					ename = "oracleaddress"
				}
				if strings.EqualFold(name, "tokencontracts") {
					ename = "tokencontract"
				}
				if strings.EqualFold(name, "aliases") {
					ename = "alias"
				}
			}
			f.set(sl.Index(i), ename)
		}
		fv.Set(sl)
	}
}

// anyValue: content for a *codectypes.Any field (claims, confirms, ethereum tx data) — the right interface,
// a wrong inner type, garbage bytes under a right or unknown type URL, or nil.
func (f *filler) anyValue(name string) *codectypes.Any {
	r := f.r
	n := strings.ToLower(name)
	k := r.Intn(10)
	if r.Chance(f.valid) {
		k = 9
	}
	switch k {
	case 0:
		return nil
	case 1:
		a, _ := codectypes.NewAnyWithValue(&banktypes.MsgSend{FromAddress: f.p.accOK[0], ToAddress: f.p.accOK[1]})
		return a
	case 2:
		return &codectypes.Any{TypeUrl: "/fx.gravity.crosschain.v1.MsgSendToFxClaim", Value: randBytes(r, r.Intn(60))}
	case 3:
		return &codectypes.Any{TypeUrl: "/nonexistent.Type", Value: randBytes(r, r.Intn(20))}
	case 4:
		return &codectypes.Any{}
	}
	var inner proto.Message
	switch n {
	case "claim":
		cands := []proto.Message{&crosschaintypes.MsgSendToFxClaim{}, &crosschaintypes.MsgBridgeCallClaim{}, &crosschaintypes.MsgBridgeTokenClaim{},
			&crosschaintypes.MsgSendToExternalClaim{}, &crosschaintypes.MsgOracleSetUpdatedClaim{}, &crosschaintypes.MsgBridgeCallResultClaim{}}
		inner = cands[r.Intn(len(cands))]
	case "confirm":
		cands := []proto.Message{&crosschaintypes.MsgConfirmBatch{}, &crosschaintypes.MsgOracleSetConfirm{}, &crosschaintypes.MsgBridgeCallConfirm{}}
		inner = cands[r.Intn(len(cands))]
	case "data":
		cands := []proto.Message{&evmtypes.LegacyTx{}, &evmtypes.AccessListTx{}, &evmtypes.DynamicFeeTx{}}
		inner = cands[r.Intn(len(cands))]
	default:
		inner = &banktypes.MsgSend{}
	}
	f.fill(reflect.ValueOf(inner).Elem())
	a, err := codectypes.NewAnyWithValue(inner)
	if err != nil {
		return nil
	}
	return a
}

// ---------------- the registered message universe ----------------

type msgType struct {
	URL   string
	Proto func() proto.Message
	HasVB bool
}

func fxMsgTypes(reg codectypes.InterfaceRegistry) []msgType {
	seen := map[string]bool{}
	var out []msgType
	add := func(u string) {
		if seen[u] || !(strings.HasPrefix(u, "/fx.") || strings.HasPrefix(u, "/ethermint.")) {
			return
		}
		seen[u] = true
		m, err := reg.Resolve(u)
		if err != nil {
			return
		}
		t := reflect.TypeOf(m).Elem()
		_, vb := m.(sdk.HasValidateBasic)
		out = append(out, msgType{URL: u, HasVB: vb, Proto: func() proto.Message { return reflect.New(t).Interface().(proto.Message) }})
	}
	for _, u := range reg.ListImplementations(sdk.MsgInterfaceProtoName) {
		add(u)
	}
	// claims / confirms travel inside MsgClaim / MsgConfirm: validated (or not) through the wrapper
	// ... and legacy gov Content implementations travel inside cosmos.gov.v1beta1.MsgSubmitProposal, whose handler calls content.ValidateBasic()
	for _, iface := range []string{"gravity.v1beta1.ExternalClaim", "gravity.v1beta1.Confirm", "cosmos.gov.v1beta1.Content"} {
		for _, u := range reg.ListImplementations(iface) {
			add(u)
		}
	}
	sort.Slice(out, func(i, j int) bool { return out[i].URL < out[j].URL })
	return out
}

// decodeMsg does what the tx decoder does with one message Any: resolve the type URL, unmarshal,
// unpack nested Anys. Returns nil, err on a decode error (that is a clean rejection).
func decodeMsg(reg codectypes.InterfaceRegistry, url string, bz []byte) (m proto.Message, o outcome) {
	o = guard(func() error {
		msg, err := reg.Resolve(url)
		if err != nil {
			return err
		}
		if err = proto.Unmarshal(bz, msg); err != nil {
			return err
		}
		if err = codectypes.UnpackInterfaces(msg, reg); err != nil {
			return err
		}
		m = msg
		return nil
	})
	return m, o
}

// evalMsg runs the stateless entry points the node runs on a decoded message. Returns one outcome per entry point.
func (h *harness) evalMsg(m proto.Message) map[string]outcome {
	res := map[string]outcome{}
	if vb, ok := m.(sdk.HasValidateBasic); ok {
		res["ValidateBasic"] = guard(vb.ValidateBasic)
	}
	if sm, ok := m.(sdk.Msg); ok {
		res["GetMsgV1Signers"] = guard(func() error {
			_, _, err := h.c.App.AppCodec().GetMsgV1Signers(sm)
			return err
		})
	}
	if gs, ok := m.(interface{ GetSigners() []sdk.AccAddress }); ok {
		res["legacyGetSigners"] = guard(func() error { gs.GetSigners(); return nil })
	}
	return res
}

// record classifies the outcomes of one wire-level instance; a panic in an entry point the node really runs is a monitor failure.
func (h *harness) recordMsg(stage, url string, bz []byte, outs map[string]outcome, how string) {
	tname := url[strings.LastIndex(url, ".")+1:]
	for ep, o := range outs {
		h.rep.Count(fmt.Sprintf("msg:%s:%s", ep, o.Class))
		if o.Class != "panic" {
			continue
		}
		if ep == "legacyGetSigners" {
			// SDK 0.50 never calls the legacy GetSigners of a message (signers come from the cosmos.msg.v1.signer
			// annotation through GetMsgV1Signers); its documented contract is to panic on an invalid address.
			h.rep.Count("legacy-getsigners-panic:" + tname)
			continue
		}
		h.fail("validate", "recovered-by-baseapp", o, fmt.Sprintf("%s.%s panics on %s", tname, ep, how),
			map[string]interface{}{"stage": stage, "type_url": url, "entry": ep, "msg_bytes_hex": fmt.Sprintf("%x", bz), "how": how, "panic": o.Msg, "top_frame": o.Top})
	}
}

// ethTxSample builds a syntactically valid signed ethereum tx message (for mutation).
func (h *harness) ethTxSample(r *lib.Rand) *evmtypes.MsgEthereumTx {
	k := h.p.keys[1]
	chainID := h.c.App.EvmKeeper.ChainID()
	to := lib.CrosschainPrecompile
	tx := evmtypes.NewTx(chainID, uint64(r.Intn(3)), &to, big.NewInt(0), 100000, big.NewInt(1_000_000_000_000), nil, nil, randBytes(r, r.Intn(40)), nil)
	tx.From = k.Hex().Bytes()
	signer := ethtypes.LatestSignerForChainID(chainID)
	_ = tx.Sign(signer, ethSigner{k})
	return tx
}

// ethSigner adapts a harness key to the keyring.Signer the ethermint message wants.
type ethSigner struct{ k lib.Key }

func (s ethSigner) Sign(_ string, msg []byte, _ signing.SignMode) ([]byte, cryptotypes.PubKey, error) {
	sig, err := s.k.Priv.Sign(msg)
	return sig, s.k.Priv.PubKey(), err
}

func (s ethSigner) SignByAddress(_ sdk.Address, msg []byte, m signing.SignMode) ([]byte, cryptotypes.PubKey, error) {
	return s.Sign("", msg, m)
}
