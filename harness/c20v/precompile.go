package main

// precompile.go: stage (ii) — every method of the staking (0x…1003) and crosschain (0x…1004) precompiles.
// Call data: method id + ABI-encoded structure-aware / boundary arguments, truncations, hostile
// offsets/lengths, random tails.  Two routes on the REAL code: through the real EVM (ethermint ApplyMessage ->
// geth interpreter -> precompile Run -> method.Run) and directly through evmtypes.ParseMethodArgs(+Validate)
// with the argument struct the method uses.

import (
	"fmt"
	"math/big"
	"reflect"
	"sort"
	"strings"

	sdk "github.com/cosmos/cosmos-sdk/types"
	"github.com/ethereum/go-ethereum/accounts/abi"
	"github.com/ethereum/go-ethereum/common"
	"github.com/ethereum/go-ethereum/core"
	ethtypes "github.com/ethereum/go-ethereum/core/types"
	ethermintevm "github.com/evmos/ethermint/x/evm/types"

	crosschaintypes "github.com/functionx/fx-core/v8/x/crosschain/types"
	fxevmtypes "github.com/functionx/fx-core/v8/x/evm/types"
	stakingtypes "github.com/functionx/fx-core/v8/x/staking/types"

	"fxverif/lib"
)

type pcMethod struct {
	Contract string
	Addr     common.Address
	Method   abi.Method
	NewArgs  func() fxevmtypes.MethodArgs // nil: no argument struct known to the harness (EVM route only)
}

// the argument struct each dispatched method decodes into (x/*/precompile/*.go: UnpackInput)
var argStructs = map[string]func() fxevmtypes.MethodArgs{
	"staking.allowanceShares":         func() fxevmtypes.MethodArgs { return new(stakingtypes.AllowanceSharesArgs) },
	"staking.approveShares":           func() fxevmtypes.MethodArgs { return new(stakingtypes.ApproveSharesArgs) },
	"staking.delegateV2":              func() fxevmtypes.MethodArgs { return new(stakingtypes.DelegateV2Args) },
	"staking.delegation":              func() fxevmtypes.MethodArgs { return new(stakingtypes.DelegationArgs) },
	"staking.delegationRewards":       func() fxevmtypes.MethodArgs { return new(stakingtypes.DelegationRewardsArgs) },
	"staking.redelegateV2":            func() fxevmtypes.MethodArgs { return new(stakingtypes.RedelegateV2Args) },
	"staking.slashingInfo":            func() fxevmtypes.MethodArgs { return new(stakingtypes.SlashingInfoArgs) },
	"staking.transferShares":          func() fxevmtypes.MethodArgs { return new(stakingtypes.TransferSharesArgs) },
	"staking.transferFromShares":      func() fxevmtypes.MethodArgs { return new(stakingtypes.TransferFromSharesArgs) },
	"staking.undelegateV2":            func() fxevmtypes.MethodArgs { return new(stakingtypes.UndelegateV2Args) },
	"staking.validatorList":           func() fxevmtypes.MethodArgs { return new(stakingtypes.ValidatorListArgs) },
	"staking.withdraw":                func() fxevmtypes.MethodArgs { return new(stakingtypes.WithdrawArgs) },
	"crosschain.bridgeCall":           func() fxevmtypes.MethodArgs { return new(crosschaintypes.BridgeCallArgs) },
	"crosschain.bridgeCoinAmount":     func() fxevmtypes.MethodArgs { return new(crosschaintypes.BridgeCoinAmountArgs) },
	"crosschain.cancelSendToExternal": func() fxevmtypes.MethodArgs { return new(crosschaintypes.CancelSendToExternalArgs) },
	"crosschain.crossChain":           func() fxevmtypes.MethodArgs { return new(crosschaintypes.CrossChainArgs) },
	"crosschain.executeClaim":         func() fxevmtypes.MethodArgs { return new(crosschaintypes.ExecuteClaimArgs) },
	"crosschain.hasOracle":            func() fxevmtypes.MethodArgs { return new(crosschaintypes.HasOracleArgs) },
	"crosschain.increaseBridgeFee":    func() fxevmtypes.MethodArgs { return new(crosschaintypes.IncreaseBridgeFeeArgs) },
	"crosschain.isOracleOnline":       func() fxevmtypes.MethodArgs { return new(crosschaintypes.IsOracleOnlineArgs) },
}

func (h *harness) precompileMethods() []pcMethod {
	var out []pcMethod
	add := func(name string, addr common.Address, a abi.ABI) {
		var names []string
		for n := range a.Methods {
			names = append(names, n)
		}
		sort.Strings(names)
		for _, n := range names {
			out = append(out, pcMethod{Contract: name, Addr: addr, Method: a.Methods[n], NewArgs: argStructs[name+"."+n]})
		}
	}
	add("staking", stakingtypes.GetAddress(), stakingtypes.GetABI())
	add("crosschain", crosschaintypes.GetAddress(), crosschaintypes.GetABI())
	return out
}

var (
	two256m1 = new(big.Int).Sub(new(big.Int).Lsh(big.NewInt(1), 256), big.NewInt(1))
	two255   = new(big.Int).Lsh(big.NewInt(1), 255)
)

// abiValue builds a Go value of the type go-ethereum's packer wants for t.
func (h *harness) abiValue(t abi.Type, name string, valid int) reflect.Value {
	r := h.r
	switch t.T {
	case abi.UintTy, abi.IntTy:
		var n *big.Int
		if f, ok := h.forceUint[name]; ok && t.Size > 64 {
			return reflect.ValueOf(new(big.Int).Set(f))
		}
		if r.Chance(valid) {
			n = big.NewInt(1 + int64(r.Intn(1000)))
			if strings.Contains(strings.ToLower(name), "value") {
				n = big.NewInt(0)
			}
		} else {
			max := new(big.Int).Sub(new(big.Int).Lsh(big.NewInt(1), uint(t.Size)), big.NewInt(1))
			n = []*big.Int{big.NewInt(0), big.NewInt(1), max, new(big.Int).Rsh(max, 1), new(big.Int).Add(new(big.Int).Rsh(max, 1), big.NewInt(1)),
				new(big.Int).SetUint64(1 << 63), new(big.Int).SetUint64(^uint64(0)), new(big.Int).Lsh(big.NewInt(1), 64)}[r.Intn(8)]
			if n.BitLen() > t.Size {
				n = max
			}
		}
		if t.Size > 64 {
			return reflect.ValueOf(n)
		}
		v := reflect.New(t.GetType()).Elem()
		if t.T == abi.UintTy {
			v.SetUint(n.Uint64())
		} else {
			v.SetInt(int64(n.Uint64()))
		}
		return v
	case abi.BoolTy:
		return reflect.ValueOf(r.Chance(50))
	case abi.AddressTy:
		if f, ok := h.forceAddr[name]; ok {
			return reflect.ValueOf(f)
		}
		if len(h.tokenAddrs) > 0 && strings.Contains(strings.ToLower(name), "token") && r.Chance(40) {
			return reflect.ValueOf(h.tokenAddrs[r.Intn(len(h.tokenAddrs))]) // an ERC20 with a registered token pair
		}
		switch r.Intn(5) {
		case 0:
			return reflect.ValueOf(common.Address{})
		case 1:
			return reflect.ValueOf(lib.CrosschainPrecompile)
		default:
			return reflect.ValueOf(h.p.keys[r.Intn(len(h.p.keys))].Hex())
		}
	case abi.StringTy:
		n := strings.ToLower(name)
		var s string
		switch {
		case !r.Chance(valid):
			f := &filler{r: r, p: h.p}
			s = f.anyString()
		case strings.Contains(n, "val"):
			s = sdk.ValAddress(h.c.ValKeys[r.Intn(len(h.c.ValKeys))].Acc()).String()
		case strings.Contains(n, "chain"):
			s = append(append([]string{}, ethChains...), "tron")[r.Intn(8)]
		case strings.Contains(n, "receipt"):
			s = h.p.ethOK[r.Intn(len(h.p.ethOK))]
		default:
			s = "memo"
		}
		return reflect.ValueOf(s)
	case abi.BytesTy:
		return reflect.ValueOf(randBytes(r, r.Intn(70)))
	case abi.FixedBytesTy:
		v := reflect.New(t.GetType()).Elem()
		var src []byte
		switch r.Intn(5) {
		case 0: // zero
		case 1:
			src = []byte("eth")
		case 2:
			src = []byte("ibc/0/px")
		case 3:
			src = []byte("chain/tron")
		default:
			src = randBytes(r, t.Size)
		}
		for i := 0; i < t.Size && i < len(src); i++ {
			v.Index(i).SetUint(uint64(src[i]))
		}
		return v
	case abi.SliceTy:
		n := []int{0, 1, 2, 3}[r.Intn(4)]
		if f, ok := h.forceLen[name]; ok {
			n = f
		}
		v := reflect.MakeSlice(t.GetType(), n, n)
		for i := 0; i < n; i++ {
			v.Index(i).Set(h.abiValue(*t.Elem, name, valid))
		}
		return v
	case abi.ArrayTy:
		v := reflect.New(t.GetType()).Elem()
		for i := 0; i < t.Size; i++ {
			v.Index(i).Set(h.abiValue(*t.Elem, name, valid))
		}
		return v
	case abi.TupleTy:
		v := reflect.New(t.GetType()).Elem()
		for i, et := range t.TupleElems {
			v.Field(i).Set(h.abiValue(*et, t.TupleRawNames[i], valid))
		}
		return v
	}
	return reflect.New(t.GetType()).Elem()
}

func (h *harness) packArgs(m abi.Method, valid int) ([]byte, bool) {
	vals := make([]interface{}, len(m.Inputs))
	for i, in := range m.Inputs {
		vals[i] = h.abiValue(in.Type, in.Name, valid).Interface()
	}
	var out []byte
	o := guard(func() error {
		bz, err := m.Inputs.Pack(vals...)
		out = bz
		return err
	})
	return out, o.Class == "ok"
}

// hostile rewrites of an encoded argument block
func (h *harness) damageCalldata(args []byte) []byte {
	r := h.r
	bz := append([]byte{}, args...)
	if len(bz) == 0 {
		return randBytes(r, r.Intn(100))
	}
	switch r.Intn(7) {
	case 0: // truncate at a word boundary
		return bz[:32*r.Intn(len(bz)/32+1)]
	case 1: // truncate anywhere
		return bz[:r.Intn(len(bz))]
	case 2, 3: // overwrite one word with a hostile offset / length
		w := r.Intn((len(bz) + 31) / 32)
		evil := []*big.Int{two256m1, two255, new(big.Int).SetUint64(1 << 63), new(big.Int).SetUint64(^uint64(0)), new(big.Int).SetUint64(1<<63 - 1),
			big.NewInt(int64(len(bz))), big.NewInt(int64(len(bz)) - 31), big.NewInt(int64(len(bz)) + 1), big.NewInt(1 << 32), big.NewInt(1<<31 - 1), big.NewInt(31), big.NewInt(0)}[r.Intn(12)]
		word := common.LeftPadBytes(evil.Bytes(), 32)
		copy(bz[w*32:], word)
		return bz
	case 4: // flip a byte
		bz[r.Intn(len(bz))] ^= byte(1 << uint(r.Intn(8)))
		return bz
	case 5: // append garbage
		return append(bz, randBytes(r, 1+r.Intn(64))...)
	default:
		return randBytes(r, r.Intn(200))
	}
}

// evmCall applies one message on the real EVM under the harness' own recover (to keep the stack).
func (h *harness) evmCall(ctx sdk.Context, from common.Address, to common.Address, value *big.Int, gas uint64, data []byte) (res *ethermintevm.MsgEthereumTxResponse, o outcome) {
	o = guard(func() error {
		h.c.EnsureAccount(ctx, from.Bytes())
		nonce := h.c.App.EvmKeeper.GetNonce(ctx, from)
		msg := &core.Message{From: from, To: &to, Nonce: nonce, Value: value, GasLimit: gas,
			GasPrice: big.NewInt(0), GasFeeCap: big.NewInt(0), GasTipCap: big.NewInt(0), Data: data, AccessList: ethtypes.AccessList{}}
		var err error
		res, err = h.c.App.EvmKeeper.ApplyMessage(ctx, msg, ethermintevm.NewNoOpTracer(), true)
		return err
	})
	return res, o
}

func (h *harness) stagePrecompiles() {
	caller := h.p.keys[1]
	h.c.Mint(caller.Acc(), lib.FX(100_000))
	if pair, ok := h.c.App.Erc20Keeper.GetTokenPair(h.c.Ctx, "FX"); ok {
		h.tokenAddrs = append(h.tokenAddrs, pair.GetERC20Contract())
	}
	methods := h.precompileMethods()
	h.rep.Count(fmt.Sprintf("precompile ABI methods=%d", len(methods)))
	for _, pm := range methods {
		label := pm.Contract + "." + pm.Method.Name
		// is the method dispatched by the contract at all?
		ctx, _ := h.c.Ctx.CacheContext()
		res, o := h.evmCall(ctx, caller.Hex(), pm.Addr, big.NewInt(0), 3_000_000, append(append([]byte{}, pm.Method.ID...), 0))
		dispatched := true
		if o.Class == "ok" && res != nil && strings.Contains(string(res.Ret), "unknown method") {
			dispatched = false
		}
		if !dispatched {
			h.rep.Count("precompile:abi-method-not-dispatched:" + label)
		} else if pm.NewArgs == nil {
			h.rep.Count("precompile:no-arg-struct-known:" + label)
		}
		one := func(args []byte, how string) {
			data := append(append([]byte{}, pm.Method.ID...), args...)
			// direct route
			if pm.NewArgs != nil {
				od := guard(func() error { return fxevmtypes.ParseMethodArgs(pm.Method, pm.NewArgs(), data[4:]) })
				h.rep.Count("precompile:direct:" + od.Class)
				h.rep.Case(fmt.Sprintf("pc-direct|%s|%s|%s", label, od.Class, short(strings.SplitN(od.Msg, ":", 2)[0], 40)), true)
				if od.Class == "panic" {
					h.fail("precompile-args", "recovered-by-baseapp", od, label+" argument decoding panics",
						map[string]interface{}{"stage": "precompile-direct", "contract": pm.Contract, "method": pm.Method.Name, "calldata_hex": fmt.Sprintf("%x", data), "how": how, "panic": od.Msg, "top_frame": od.Top})
				}
			}
			// EVM route (every third case with a non-zero msg.value)
			value := big.NewInt(0)
			if h.r.Chance(25) {
				value = big.NewInt(int64(1 + h.r.Intn(1000)))
			}
			ctx, _ := h.c.Ctx.CacheContext()
			res, oe := h.evmCall(ctx, caller.Hex(), pm.Addr, value, 3_000_000, data)
			cls := oe.Class
			detail := short(strings.SplitN(oe.Msg, ":", 2)[0], 40)
			if oe.Class == "ok" && res != nil {
				if res.Failed() {
					cls = "reverted"
					detail = short(res.VmError, 40)
				}
			}
			h.rep.Count("precompile:evm:" + cls)
			h.rep.Case(fmt.Sprintf("pc-evm|%s|%s|%s", label, cls, detail), dispatched)
			if oe.Class == "panic" {
				h.fail("precompile-run", "recovered-by-baseapp", oe, label+" panics inside the EVM call",
					map[string]interface{}{"stage": "precompile-evm", "contract": pm.Contract, "method": pm.Method.Name, "calldata_hex": fmt.Sprintf("%x", data), "value": value.String(), "how": how, "panic": oe.Msg, "top_frame": oe.Top})
			}
		}
		// deterministic grid: every combination of lengths 0..2 of the array arguments, everything else well-formed
		// (paired arrays such as _tokens/_amounts are indexed by one another in Run)
		var arrays []string
		for _, in := range pm.Method.Inputs {
			if in.Type.T == abi.SliceTy {
				arrays = append(arrays, in.Name)
			}
		}
		if len(arrays) > 0 && len(arrays) <= 3 {
			total := 1
			for range arrays {
				total *= 3
			}
			for c := 0; c < total; c++ {
				h.forceLen = map[string]int{}
				x := c
				var desc []string
				for _, a := range arrays {
					h.forceLen[a] = x % 3
					desc = append(desc, fmt.Sprintf("%s=%d", a, x%3))
					x /= 3
				}
				for rep := 0; rep < 3; rep++ {
					if args, ok := h.packArgs(pm.Method, 100); ok {
						one(args, "abi(valid=100%) array lengths "+strings.Join(desc, ","))
					}
				}
			}
			h.forceLen = nil
		}
		// deterministic grid: every uint256 argument over {0, 1, 2^255, 2^256-1} (sums/products of two arguments cross 2^256),
		// every address argument named *token* over the ERC20 contracts that have a registered token pair, rest well-formed
		var uints, tokArgs []string
		for _, in := range pm.Method.Inputs {
			if in.Type.T == abi.UintTy && in.Type.Size == 256 {
				uints = append(uints, in.Name)
			}
			if in.Type.T == abi.AddressTy && strings.Contains(strings.ToLower(in.Name), "token") {
				tokArgs = append(tokArgs, in.Name)
			}
		}
		if len(uints) >= 1 && len(uints) <= 3 {
			grid := []*big.Int{big.NewInt(0), big.NewInt(1), two255, two256m1}
			if len(uints) == 1 {
				grid = []*big.Int{big.NewInt(0), big.NewInt(1), big.NewInt(2), big.NewInt(3), new(big.Int).Lsh(big.NewInt(1), 63), new(big.Int).Lsh(big.NewInt(1), 64),
					new(big.Int).Lsh(big.NewInt(1), 128), new(big.Int).Lsh(big.NewInt(1), 200), new(big.Int).Sub(two255, big.NewInt(1)), two255, two256m1}
			}
			total := 1
			for range uints {
				total *= len(grid)
			}
			toks := append([]common.Address{h.p.keys[0].Hex()}, h.tokenAddrs...)
			for _, tok := range toks {
				for c := 0; c < total; c++ {
					h.forceUint = map[string]*big.Int{}
					h.forceAddr = map[string]common.Address{}
					for _, a := range tokArgs {
						h.forceAddr[a] = tok
					}
					x := c
					var desc []string
					for _, u := range uints {
						h.forceUint[u] = grid[x%len(grid)]
						desc = append(desc, fmt.Sprintf("%s=%s", u, short(grid[x%len(grid)].String(), 12)))
						x /= len(grid)
					}
					if args, ok := h.packArgs(pm.Method, 100); ok {
						one(args, "abi(valid=100%) uint grid "+strings.Join(desc, ",")+" token="+tok.Hex())
					}
				}
			}
			h.forceUint, h.forceAddr = nil, nil
		}
		n := 60 * h.scale
		for i := 0; i < n; i++ {
			valid := []int{100, 95, 80, 50, 0}[h.r.Intn(5)]
			args, ok := h.packArgs(pm.Method, valid)
			how := fmt.Sprintf("abi(valid=%d%%)", valid)
			if !ok {
				args = randBytes(h.r, h.r.Intn(100))
				how = "random"
			}
			if h.r.Chance(55) {
				args = h.damageCalldata(args)
				how += "+damage"
			}
			one(args, how)
		}
	}
	// unknown selectors, short inputs
	for i := 0; i < 40*h.scale; i++ {
		addr := []common.Address{lib.StakingPrecompile, lib.CrosschainPrecompile}[h.r.Intn(2)]
		data := randBytes(h.r, h.r.Intn(12))
		ctx, _ := h.c.Ctx.CacheContext()
		_, oe := h.evmCall(ctx, caller.Hex(), addr, big.NewInt(0), 1_000_000, data)
		h.rep.Count("precompile:evm-short:" + oe.Class)
		h.rep.Case(fmt.Sprintf("pc-evm-short|%s|%d", oe.Class, len(data)), false)
		if oe.Class == "panic" {
			h.fail("precompile-run", "recovered-by-baseapp", oe, "precompile panics on short/unknown input",
				map[string]interface{}{"stage": "precompile-evm", "contract": addr.Hex(), "calldata_hex": fmt.Sprintf("%x", data), "panic": oe.Msg, "top_frame": oe.Top})
		}
	}
}
