package main

// replay.go: deterministic replays that do not depend on the random stages.
//
//  * the C20_must_safe refutation of the model (M_Validate: must_BridgeCallClaim_amounts) replayed on the REAL
//    keeper: a MsgBridgeCallClaim whose amounts entry is negative (or absent on the wire) passes ValidateBasic,
//    and the handler the attestation runs (BridgeCallHandler -> BridgeTokenToBaseCoin -> sdk.NewCoin) panics.
//  * the two decoder facts the guarded theorems lean on: abi.Unpack never yields a nil *big.Int,
//    UnmarshalInterfaceJSON never yields a nil Int for the IBC memo packet.

import (
	"encoding/hex"
	"encoding/json"
	"fmt"
	"math/big"
	"os"
	"path/filepath"
	"sort"
	"strings"

	sdkmath "cosmossdk.io/math"
	codectypes "github.com/cosmos/cosmos-sdk/codec/types"
	txtypes "github.com/cosmos/cosmos-sdk/types/tx"
	"github.com/cosmos/gogoproto/proto"

	fxtypes "github.com/functionx/fx-core/v8/types"

	crosschaintypes "github.com/functionx/fx-core/v8/x/crosschain/types"
	fxevmtypes "github.com/functionx/fx-core/v8/x/evm/types"

	"fxverif/lib"
)

func (h *harness) replayKnown() {
	// --- claim amounts (finding C20-6, repaired by edafc05): a negative or absent amount must be refused by ValidateBasic;
	//     should it ever be accepted again, the real attestation handler is run on it to show the panic ---
	if h.w == nil || h.w.chains["eth"] == nil {
		h.rep.Count("replay:claim-amount:skipped-no-world")
		return
	}
	contractAddr := h.w.chains["eth"].fxContract
	ext := func(i int) string { return lib.ExternalAccount(h.seed, "eth", i) }
	for _, variant := range []string{"negative", "absent", "valid"} {
		m := &crosschaintypes.MsgBridgeCallClaim{ChainName: "eth", BridgerAddress: h.p.accOK[0], EventNonce: 1, BlockHeight: 10, Sender: ext(1), Refund: ext(1),
			TokenContracts: []string{contractAddr}, Amounts: []sdkmath.Int{sdkmath.NewInt(-1)}, To: ext(2), Data: "", Value: sdkmath.ZeroInt(), Memo: "", TxOrigin: ext(1)}
		var ops []wireOp
		switch variant {
		case "absent":
			m.Amounts[0] = sdkmath.ZeroInt()
			ops = []wireOp{{Path: []wstep{{fieldNum(m, "Amounts"), 0}}, Op: "empty"}}
		case "valid":
			m.Amounts[0] = sdkmath.NewInt(5)
		}
		var decoded *crosschaintypes.MsgBridgeCallClaim
		o := h.wireRun(m, ops, func(x proto.Message) error {
			decoded = x.(*crosschaintypes.MsgBridgeCallClaim)
			return decoded.ValidateBasic()
		})
		h.rep.Case("replay|claim-amount|"+variant+"|validate|"+o.Class, true)
		h.rep.Count("replay:claim-amount:" + variant + ":validate:" + o.Class)
		if o.Class != "ok" {
			if variant == "valid" {
				h.rep.Fail(lib.Failure{Kind: "harness", What: "the valid MsgBridgeCallClaim of the amounts replay is refused: " + o.Msg, Sig: "tie"})
			}
			continue
		}
		// accepted: the handler the attestation runs must cope with it
		ctx, _ := h.c.Ctx.CacheContext()
		k := h.c.XKeeper("eth")
		d := guard(func() error { return k.BridgeCallHandler(ctx, decoded) })
		h.rep.Case("replay|claim-amount|"+variant+"|handler|"+d.Class, true)
		h.rep.Count("replay:claim-amount:" + variant + ":handler:" + d.Class)
		if d.Class == "panic" {
			bz, _ := marshalGuard(decoded)
			h.fail("handler", "recovered-by-baseapp", d, "a "+variant+" MsgBridgeCallClaim amount passes ValidateBasic and the attestation handler panics",
				map[string]interface{}{"stage": "replay", "claim_hex": fmt.Sprintf("%x", bz), "variant": variant, "panic": d.Msg, "top_frame": d.Top})
		}
	}
	// --- decoder facts ---
	mth := crosschaintypes.GetABI().Methods["bridgeCall"]
	nilSeen := 0
	for i := 0; i < 200; i++ {
		args, ok := h.packArgs(mth, 50)
		if !ok {
			continue
		}
		if h.r.Chance(50) {
			args = h.damageCalldata(args)
		}
		a := new(crosschaintypes.BridgeCallArgs)
		_ = guard(func() error {
			un, err := mth.Inputs.Unpack(args)
			if err != nil {
				return err
			}
			if err = mth.Inputs.Copy(a, un); err != nil {
				return err
			}
			if a.Value == nil {
				nilSeen++
			}
			for _, x := range a.Amounts {
				if x == nil {
					nilSeen++
				}
			}
			return nil
		})
	}
	h.rep.Count(fmt.Sprintf("replay:abi-decoded-nil-bigint=%d", nilSeen))
	if nilSeen > 0 {
		h.rep.Fail(lib.Failure{Kind: "harness", What: "go-ethereum's abi decoder produced a nil *big.Int: the hypothesis cargs_from_abi of C20_precompile_args_total does not describe the decoder", Sig: "tie"})
	}
	// struct-level: the transcribed function itself does panic on a nil Value (what the model says), reachable only by Go callers
	o := guard(func() error { return (&crosschaintypes.BridgeCallArgs{DstChain: "eth"}).Validate() })
	h.rep.Count("replay:BridgeCallArgs{Value:nil}.Validate:" + o.Class)
	_ = big.NewInt
	_ = fxevmtypes.ParseMethodArgs
}

// replayFile re-runs one recorded failing input (the "replay" object of out/replay/C20-*.json, or a corpus file) on the real code.
func (h *harness) replayFile(path string) {
	res := h.replayObject(path, nil, true)
	fmt.Printf("replay: result %s\n", res)
	for _, f := range h.rep.Failures {
		fmt.Printf("replay: FAILURE %s\n        %s\n", f.Sig, f.What)
	}
}

// replayObject returns "panic" | "rejected" | "accepted" | "n/a".
func (h *harness) replayObject(path string, e *anteEnv, verbose bool) string {
	raw, err := os.ReadFile(path)
	lib.Must(err)
	var obj map[string]interface{}
	lib.Must(json.Unmarshal(raw, &obj))
	rp := obj
	if inner, ok := obj["replay"].(map[string]interface{}); ok {
		rp = inner
	}
	str := func(k string) string { s, _ := rp[k].(string); return s }
	unhex := func(k string) []byte { b, _ := hex.DecodeString(str(k)); return b }
	say := func(format string, a ...interface{}) {
		if verbose {
			fmt.Printf(format, a...)
		}
	}
	classOf := func(o outcome) string {
		switch o.Class {
		case "panic":
			return "panic"
		case "err":
			return "rejected"
		}
		return "accepted"
	}
	switch {
	case str("stage") == "handlers" && str("type_url") != "":
		// a message that passed ValidateBasic and made its handler panic: decode, validate, run the real handler on the populated state
		res := h.runHandlerRes(str("type_url"), unhex("msg_bytes_hex"), "corpus replay "+path)
		say("replay: %s through ValidateBasic + router handler -> %s\n", str("type_url"), short(res, 200))
		switch {
		case res == "panic":
			return "panic"
		case res == "ok":
			return "accepted"
		}
		return "rejected"
	case str("msg_bytes_hex") != "" || str("type_url") != "":
		decoded, outs := h.instance("corpus", str("type_url"), unhex("msg_bytes_hex"), "corpus replay "+path)
		if !decoded {
			return "rejected"
		}
		res := "accepted"
		for ep, o := range outs {
			say("replay: %s %s -> %s %s (site %s)\n", str("type_url"), ep, o.Class, o.Msg, o.Site)
			if ep == "legacyGetSigners" {
				continue
			}
			if c := classOf(o); c == "panic" || (c == "rejected" && res != "panic") {
				res = c
			}
		}
		return res
	case str("tx_bytes_hex") != "":
		if e == nil {
			e = h.corpusEnv()
		}
		bz := unhex("tx_bytes_hex")
		var cls string
		if str("route") == "FinalizeBlock" {
			bz = h.refreshSequence(bz, e)
			cls = h.deliver([][]byte{bz}, []string{"corpus replay " + path})[0]
			h.refreshAccounts(e)
		} else {
			cls = h.checkTx(e, bz, "corpus replay "+path)
		}
		say("replay: %s -> %s\n", str("route"), cls)
		switch {
		case strings.HasPrefix(cls, "PANIC"):
			return "panic"
		case cls == "accepted":
			return "accepted"
		}
		return "rejected"
	case str("calldata_hex") != "":
		caller := h.p.keys[1]
		h.c.Mint(caller.Acc(), lib.FX(100_000))
		addr := lib.CrosschainPrecompile
		if str("contract") == "staking" {
			addr = lib.StakingPrecompile
		}
		ctx, _ := h.c.Ctx.CacheContext()
		v, _ := new(big.Int).SetString(str("value"), 10)
		if v == nil {
			v = big.NewInt(0)
		}
		res, o := h.evmCall(ctx, caller.Hex(), addr, v, 3_000_000, unhex("calldata_hex"))
		say("replay: evm call -> %s %s (site %s)\n", o.Class, o.Msg, o.Site)
		if o.Class == "panic" {
			h.fail("precompile-run", "recovered-by-baseapp", o, "precompile panics (replay)", map[string]interface{}{"calldata_hex": str("calldata_hex")})
			return "panic"
		}
		if o.Class == "err" || (res != nil && res.Failed()) {
			return "rejected"
		}
		return "accepted"
	case str("claim_hex") != "":
		var res string
		o := guard(func() error {
			m := new(crosschaintypes.MsgBridgeCallClaim)
			if err := proto.Unmarshal(unhex("claim_hex"), m); err != nil {
				return err
			}
			return m.ValidateBasic()
		})
		res = classOf(o)
		say("replay: MsgBridgeCallClaim.ValidateBasic -> %s %s\n", o.Class, o.Msg)
		if res == "accepted" && verbose {
			// stand-alone replay: the handler side is shown by replayKnown on a claim it builds itself (check mode runs it anyway)
			before := h.sigs["C20:panic:recovered-by-baseapp:handler:fx:x/crosschain/keeper.Keeper.BridgeTokenToBaseCoin"]
			h.replayKnown()
			if h.sigs["C20:panic:recovered-by-baseapp:handler:fx:x/crosschain/keeper.Keeper.BridgeTokenToBaseCoin"] > before {
				return "panic"
			}
		}
		return res
	case str("function") != "":
		in := string(unhex("input_hex"))
		o := guard(func() error {
			switch str("function") {
			case "ParseAddress":
				_, _, err := fxtypes.ParseAddress(in)
				return err
			default:
				t := fxtypes.ParseFxTarget(in)
				_ = t.GetTarget()
				return nil
			}
		})
		say("replay: %s -> %s %s\n", str("function"), o.Class, o.Msg)
		return classOf(o)
	}
	say("replay: nothing replayable in %s\n", path)
	return "n/a"
}

// corpusEnv: the recorded transactions were signed with the keys of seed 1: fund exactly those accounts.
func (h *harness) corpusEnv() *anteEnv {
	saved := h.p
	h.p = newPools(1)
	e := h.newAnteEnv()
	h.p = saved
	return e
}

// stageCorpus replays every file of corpus/C20 in check mode. The inputs recorded for the repaired fx-core findings
// (C20-1 … C20-6) must now be REJECTED WITHOUT A PANIC; a panic is a monitor failure under its ordinary signature, an
// acceptance is a monitor failure of its own. The dep-* files (C20-7/8, dependency code) are replayed to keep the
// KNOWN-FINDING lines deterministic.
func (h *harness) stageCorpus() {
	dir := os.Getenv("VERIF_CORPUS")
	if dir == "" {
		dir = "../corpus/C20"
	}
	files, _ := filepath.Glob(filepath.Join(dir, "*.json"))
	sort.Strings(files)
	if len(files) == 0 {
		h.rep.Count("corpus:none-found")
		return
	}
	e := h.corpusEnv()
	for _, f := range files {
		name := strings.TrimSuffix(filepath.Base(f), ".json")
		res := h.replayObject(f, e, false)
		h.rep.Count("corpus:" + name + ":" + res)
		h.rep.Case("corpus|"+name+"|"+res, true)
		if strings.HasPrefix(name, "dep-") || strings.HasPrefix(name, "open-") {
			continue // known, unrepaired findings (dependency code / open fx-core finding): replayed for determinism only
		}
		if res != "rejected" {
			h.rep.Fail(lib.Failure{Kind: "monitor", Sig: "C20:corpus:" + name + ":" + res,
				What:   fmt.Sprintf("the recorded input of a repaired finding (%s) is no longer rejected with an error: %s", name, res),
				Replay: map[string]interface{}{"stage": "corpus", "file": f, "result": res}})
		}
	}
}

// refreshSequence rewrites the first signer's sequence to the account's current one and re-signs (the harness owns the keys).
func (h *harness) refreshSequence(txBz []byte, e *anteEnv) []byte {
	var raw txtypes.TxRaw
	if err := proto.Unmarshal(txBz, &raw); err != nil {
		return txBz
	}
	var ai txtypes.AuthInfo
	if err := proto.Unmarshal(raw.AuthInfoBytes, &ai); err != nil || len(ai.SignerInfos) == 0 || ai.SignerInfos[0].PublicKey == nil {
		return txBz
	}
	for _, a := range e.accts {
		pk, _ := codectypes.NewAnyWithValue(a.key.Priv.PubKey())
		if string(pk.Value) == string(ai.SignerInfos[0].PublicKey.Value) {
			ai.SignerInfos[0].Sequence = a.seq
			aiBz, _ := proto.Marshal(&ai)
			return h.signRaw(raw.BodyBytes, aiBz, a)
		}
	}
	return txBz
}
