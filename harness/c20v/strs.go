package main

// strs.go: stage (iii) — hostile strings into the parsers the node applies to attacker-chosen text:
// fxtypes.ParseFxTarget (plain, hex flavour, and through Byte32ToString as the precompile does),
// fxtypes.ParseAddress, crosschaintypes.ValidateExternalAddr for every chain (tron base58 included),
// and — only where the code applies them after a successful validation — ExternalAddrToAccAddr/HexAddr,
// FxTarget.ReceiveAddrToStr, GetIbcDenomTrace.

import (
	"encoding/hex"
	"fmt"
	"strings"

	sdk "github.com/cosmos/cosmos-sdk/types"
	transfertypes "github.com/cosmos/ibc-go/v8/modules/apps/transfer/types"

	fxtypes "github.com/functionx/fx-core/v8/types"
	crosschaintypes "github.com/functionx/fx-core/v8/x/crosschain/types"
	ibcmwtypes "github.com/functionx/fx-core/v8/x/ibc/middleware/types"
	trontypes "github.com/functionx/fx-core/v8/x/tron/types"
)

func (h *harness) hostileString() string {
	r := h.r
	f := &filler{r: r, p: h.p}
	switch r.Intn(14) {
	case 0:
		return []string{"module/evm", "erc20", "gravity", "eth", "chain/gravity", "chain/eth", "chain/", "chain/chain/bsc", "tron", "chain/tron"}[r.Intn(10)]
	case 1:
		pfx := []string{"px", "0x", "0X", "", " ", "cosmos", "fx", strings.Repeat("p", 90), "é"}[r.Intn(9)]
		ch := []string{"channel-0", "channel-18446744073709551615", "channel-18446744073709551616", "channel--1", "channel-", "0", "-1", "x", ""}[r.Intn(9)]
		switch r.Intn(4) {
		case 0:
			return "ibc/" + strings.TrimPrefix(ch, "channel-") + "/" + pfx
		case 1:
			return "ibc/" + pfx + "/transfer/" + ch
		case 2:
			return pfx + "/transfer/" + ch
		default:
			return pfx + "/" + []string{"transfer", "Transfer", "", "icahost"}[r.Intn(4)] + "/" + ch
		}
	case 2:
		return "ibc/" + strings.Repeat("/", r.Intn(6))
	case 3:
		return strings.Repeat("/", r.Intn(8))
	case 4:
		return "ibc/" + randPrintable(r, r.Intn(20))
	case 5:
		return string(randBytes(r, r.Intn(40)))
	case 6:
		return h.p.tronOK[r.Intn(len(h.p.tronOK))]
	case 7:
		return h.p.badTron(r)
	case 8:
		return h.p.ethOK[r.Intn(len(h.p.ethOK))]
	case 9:
		return h.p.badEth(r)
	case 10:
		return h.p.accOK[r.Intn(len(h.p.accOK))]
	case 11:
		return h.p.badAcc(r)
	case 12:
		return ""
	default:
		return f.anyString()
	}
}

func (h *harness) strCase(fn, in string, o outcome, nontrivial bool) {
	h.rep.Count("str:" + fn + ":" + o.Class)
	h.rep.Case(fmt.Sprintf("str|%s|%s|%s|%d", fn, o.Class, short(strings.SplitN(o.Msg, ":", 2)[0], 30), len(in)%7), nontrivial)
	if o.Class == "panic" {
		h.fail("parse", "caller-dependent", o, fn+" panics on a hostile string",
			map[string]interface{}{"stage": "strings", "function": fn, "input_hex": hex.EncodeToString([]byte(in)), "input": short(in, 80), "panic": o.Msg, "top_frame": o.Top})
	}
}

// stageMemos: IBC packet memos (attacker: any user of a counterparty chain) through the REAL decode + validation path of
// the middleware, keeper.HandlerIbcCall = cdc.UnmarshalInterfaceJSON(memo) -> MemoPacket.ValidateBasic -> HandlerIbcCallEvm.
// In particular "value" absent / null / "" / non-numeric / negative / huge / a JSON number: the decoder must never hand a
// nil Int to IbcCallEvmPacket.ValidateBasic (which calls Value.IsNegative() without a nil test) — the hypothesis of
// C20_decoder_excluded_classes, counted in decoder-fact:memo-nil-int.
func (h *harness) stageMemos() {
	to := h.p.ethOK[0]
	values := []string{"", `,"value":null`, `,"value":""`, `,"value":"abc"`, `,"value":"-1"`, `,"value":"0"`, `,"value":"1"`, `,"value":1`, `,"value":-1`, `,"value":1.5`,
		`,"value":"1.5"`, `,"value":" 1"`, `,"value":"0x10"`, `,"value":"115792089237316195423570985008687907853269984665640564039457584007913129639935"`,
		`,"value":"115792089237316195423570985008687907853269984665640564039457584007913129639936"`, `,"value":{}`, `,"value":[]`, `,"value":true`, `,"value":"1e3"`}
	tos := []string{to, "", strings.ToLower(to), "0x", h.p.tronOK[0]}
	datas := []string{"", "00", "0", "zz", "0x00"}
	types := []string{"/fx.ibc.applications.transfer.v1.IbcCallEvmPacket", "/fx.ibc.applications.transfer.v1.MemoPacket", "/cosmos.bank.v1beta1.MsgSend", ""}
	nilSeen := 0
	run := func(memo string) {
		// the decoder fact
		o := guard(func() error {
			var mp ibcmwtypes.MemoPacket
			if err := h.c.App.AppCodec().UnmarshalInterfaceJSON([]byte(memo), &mp); err != nil {
				return err
			}
			if p, ok := mp.(*ibcmwtypes.IbcCallEvmPacket); ok && p.Value.IsNil() {
				nilSeen++
			}
			return mp.ValidateBasic()
		})
		h.strCase("IBC memo: UnmarshalInterfaceJSON+ValidateBasic", memo, o, true)
		// the real middleware entry
		ctx, _ := h.c.Ctx.CacheContext()
		data := transfertypes.FungibleTokenPacketData{Denom: "FX", Amount: "1", Sender: "px1sender", Receiver: h.p.accOK[0], Memo: memo}
		o = guard(func() error { return h.c.App.IBCMiddlewareKeeper.HandlerIbcCall(ctx, "transfer", "channel-0", data) })
		h.strCase("IBC memo: keeper.HandlerIbcCall", memo, o, true)
	}
	for _, v := range values {
		for _, t := range tos {
			for _, d := range datas {
				run(fmt.Sprintf(`{"@type":%q,"to":%q%s,"data":%q}`, types[0], t, v, d))
			}
		}
	}
	for _, ty := range types[1:] {
		run(fmt.Sprintf(`{"@type":%q,"to":%q,"data":"00"}`, ty, to))
	}
	for _, m := range []string{"", "{}", "null", "[]", `{"@type":1}`, `{"@type":"/fx.ibc.applications.transfer.v1.IbcCallEvmPacket"}`,
		`{"@type":"/fx.ibc.applications.transfer.v1.IbcCallEvmPacket","to":1}`, `{"@type":"/fx.ibc.applications.transfer.v1.IbcCallEvmPacket","unknown":1}`,
		`{"@type":"/fx.ibc.applications.transfer.v1.IbcCallEvmPacket","value":"1","value":null,"to":"` + to + `"}`, strings.Repeat("[", 2000), `{"a":` + strings.Repeat(`{"a":`, 500)} {
		run(m)
	}
	for i := 0; i < 100*h.scale; i++ {
		run(string(randBytes(h.r, h.r.Intn(80))))
	}
	h.rep.Count(fmt.Sprintf("decoder-fact:memo-nil-int=%d", nilSeen))
	if nilSeen > 0 {
		h.rep.Notes = append(h.rep.Notes, "UnmarshalInterfaceJSON produced an IbcCallEvmPacket with a nil Value: the hypothesis `decodable` of C20_validate_total no longer describes the decoder (any resulting panic is reported by the monitor above)")
	}
}

// sigLengths: every byte length 0..70 plus two long ones — the signature helpers read fixed offsets of attacker bytes
func sigLengths() []int {
	var ls []int
	for i := 0; i <= 70; i++ {
		ls = append(ls, i)
	}
	return append(ls, 128, 1000)
}

// sigBytes: a signature-shaped byte string of length n; variant selects the recovery byte / filling
func (h *harness) sigBytes(n, variant int) []byte {
	b := randBytes(h.r, n)
	switch variant {
	case 1:
		for i := range b {
			b[i] = 0
		}
	case 2:
		if n > 0 {
			b[n-1] = 27
		}
	case 3:
		if n > 0 {
			b[n-1] = 28
		}
	case 4:
		if n > 64 {
			b[64] = 27
		}
	}
	return b
}

// stageSignatureHelpers: the per-chain signature helpers the confirm handlers hand attacker bytes to, called directly
// over the whole length sweep (they index signature[64]).
func (h *harness) stageSignatureHelpers() {
	hash := randBytes(h.r, 32)
	for _, n := range sigLengths() {
		for variant := 0; variant < 5; variant++ {
			sig := h.sigBytes(n, variant)
			in := fmt.Sprintf("len=%d variant=%d", n, variant)
			calls := map[string]func() error{
				"trontypes.TronAddressFromSignature": func() error { _, err := trontypes.TronAddressFromSignature(hash, append([]byte{}, sig...)); return err },
				"trontypes.ValidateTronSignature":    func() error { return trontypes.ValidateTronSignature(hash, append([]byte{}, sig...), h.p.tronOK[0]) },
				"crosschaintypes.EthAddressFromSignature": func() error {
					_, err := crosschaintypes.EthAddressFromSignature(hash, append([]byte{}, sig...))
					return err
				},
				"crosschaintypes.ValidateEthereumSignature": func() error {
					return crosschaintypes.ValidateEthereumSignature(hash, append([]byte{}, sig...), h.p.ethOK[0])
				},
			}
			for name, f := range calls {
				o := guard(f)
				h.rep.Count("str:" + name + ":" + o.Class)
				h.rep.Case(fmt.Sprintf("sig|%s|%s|%d", name, o.Class, n), true)
				if o.Class == "panic" {
					h.fail("parse", "recovered-by-baseapp", o, name+" panics on a "+fmt.Sprint(n)+"-byte signature",
						map[string]interface{}{"stage": "strings", "function": name, "signature_hex": hex.EncodeToString(sig), "input": in, "panic": o.Msg, "top_frame": o.Top})
				}
			}
		}
	}
}

func (h *harness) stageStrings() {
	h.stageMemos()
	h.stageSignatureHelpers()
	chains := append(crosschaintypes.GetSupportChains(), "", "nochain", "ETH")
	n := 1500 * h.scale
	for i := 0; i < n; i++ {
		s := h.hostileString()
		// targets
		var tgt fxtypes.FxTarget
		o := guard(func() error {
			tgt = fxtypes.ParseFxTarget(s)
			_ = tgt.GetTarget()
			_ = tgt.String()
			_ = tgt.IBCValidate()
			return nil
		})
		h.strCase("ParseFxTarget", s, o, true)
		if o.Class == "ok" && tgt.IsIBC() {
			// send_to_fx.go: after ParseFxTarget(claim.TargetIbc, true) the receiver is rendered with the attacker's prefix
			o2 := guard(func() error { _, err := tgt.ReceiveAddrToStr(sdk.AccAddress(h.p.keys[0].Acc())); return err })
			h.strCase("FxTarget.ReceiveAddrToStr", s, o2, true)
		}
		hs := s
		if h.r.Chance(70) {
			hs = hex.EncodeToString([]byte(s))
		}
		o = guard(func() error { t := fxtypes.ParseFxTarget(hs, true); _ = t.GetTarget(); _ = t.String(); return nil })
		h.strCase("ParseFxTarget(hex)", hs, o, true)
		var b32 [32]byte
		copy(b32[:], s)
		o = guard(func() error { t := fxtypes.ParseFxTarget(fxtypes.Byte32ToString(b32)); _ = t.GetTarget(); return nil })
		h.strCase("ParseFxTarget(Byte32ToString)", s, o, true)
		// addresses
		o = guard(func() error { _, _, err := fxtypes.ParseAddress(s); return err })
		h.strCase("ParseAddress", s, o, true)
		chain := chains[h.r.Intn(len(chains))]
		o = guard(func() error { return crosschaintypes.ValidateExternalAddr(chain, s) })
		h.strCase("ValidateExternalAddr", s, o, true)
		if o.Class == "ok" {
			// the conversions the handlers apply to a validated external address
			o2 := guard(func() error {
				a := crosschaintypes.ExternalAddrToAccAddr(chain, s)
				x := crosschaintypes.ExternalAddrToHexAddr(chain, s)
				_ = crosschaintypes.ExternalAddrToStr(chain, x.Bytes())
				_ = a.String()
				return nil
			})
			h.strCase("ExternalAddrTo*(after validation)", s, o2, true)
		}
		o = guard(func() error { _, err := fxtypes.GetIbcDenomTrace("usdt", hs); return err })
		h.strCase("GetIbcDenomTrace", hs, o, true)
		o = guard(func() error { return crosschaintypes.ValidateModuleName(s) })
		h.strCase("ValidateModuleName", s, o, false)
	}
}
