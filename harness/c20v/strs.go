package main

// strs.go: stage (iii) — hostile strings into the parsers the node applies to attacker-chosen text:
// fxtypes.ParseFxTarget (plain, hex flavour, and through Byte32ToString as the precompile does),
// fxtypes.ParseAddress, crosschaintypes.ValidateExternalAddr for every chain (tron base58 included),
// and — only where the code applies them after a successful validation — ExternalAddrToAccAddr/HexAddr,
// FxTarget.ReceiveAddrToStr, GetIbcDenomTrace.

import (
	"encoding/hex"
	"fmt"
	"strings"

	sdk "github.com/cosmos/cosmos-sdk/types"

	fxtypes "github.com/functionx/fx-core/v8/types"
	crosschaintypes "github.com/functionx/fx-core/v8/x/crosschain/types"
)

func (h *harness) hostileString() string {
	r := h.r
	f := &filler{r: r, p: h.p}
	switch r.Intn(14) {
	case 0:
		return []string{"module/evm", "erc20", "gravity", "eth", "chain/gravity", "chain/eth", "chain/", "chain/chain/bsc", "tron", "chain/tron"}[r.Intn(10)]
	case 1:
		pfx := []string{"px", "0x", "0X", "", " ", "cosmos", "fx", strings.Repeat("p", 90), "é"}[r.Intn(9)]
		ch := []string{"channel-0", "channel-18446744073709551615", "channel-18446744073709551616", "channel--1", "channel-", "0", "-1", "x", ""}[r.Intn(9)]
		switch r.Intn(4) {
		case 0:
			return "ibc/" + strings.TrimPrefix(ch, "channel-") + "/" + pfx
		case 1:
			return "ibc/" + pfx + "/transfer/" + ch
		case 2:
			return pfx + "/transfer/" + ch
		default:
			return pfx + "/" + []string{"transfer", "Transfer", "", "icahost"}[r.Intn(4)] + "/" + ch
		}
	case 2:
		return "ibc/" + strings.Repeat("/", r.Intn(6))
	case 3:
		return strings.Repeat("/", r.Intn(8))
	case 4:
		return "ibc/" + randPrintable(r, r.Intn(20))
	case 5:
		return string(randBytes(r, r.Intn(40)))
	case 6:
		return h.p.tronOK[r.Intn(len(h.p.tronOK))]
	case 7:
		return h.p.badTron(r)
	case 8:
		return h.p.ethOK[r.Intn(len(h.p.ethOK))]
	case 9:
		return h.p.badEth(r)
	case 10:
		return h.p.accOK[r.Intn(len(h.p.accOK))]
	case 11:
		return h.p.badAcc(r)
	case 12:
		return ""
	default:
		return f.anyString()
	}
}

func (h *harness) strCase(fn, in string, o outcome, nontrivial bool) {
	h.rep.Count("str:" + fn + ":" + o.Class)
	h.rep.Case(fmt.Sprintf("str|%s|%s|%s|%d", fn, o.Class, short(strings.SplitN(o.Msg, ":", 2)[0], 30), len(in)%7), nontrivial)
	if o.Class == "panic" {
		h.fail("parse", "caller-dependent", o, fn+" panics on a hostile string",
			map[string]interface{}{"stage": "strings", "function": fn, "input_hex": hex.EncodeToString([]byte(in)), "input": short(in, 80), "panic": o.Msg, "top_frame": o.Top})
	}
}

func (h *harness) stageStrings() {
	chains := append(crosschaintypes.GetSupportChains(), "", "nochain", "ETH")
	n := 1500 * h.scale
	for i := 0; i < n; i++ {
		s := h.hostileString()
		// targets
		var tgt fxtypes.FxTarget
		o := guard(func() error {
			tgt = fxtypes.ParseFxTarget(s)
			_ = tgt.GetTarget()
			_ = tgt.String()
			_ = tgt.IBCValidate()
			return nil
		})
		h.strCase("ParseFxTarget", s, o, true)
		if o.Class == "ok" && tgt.IsIBC() {
			// send_to_fx.go: after ParseFxTarget(claim.TargetIbc, true) the receiver is rendered with the attacker's prefix
			o2 := guard(func() error { _, err := tgt.ReceiveAddrToStr(sdk.AccAddress(h.p.keys[0].Acc())); return err })
			h.strCase("FxTarget.ReceiveAddrToStr", s, o2, true)
		}
		hs := s
		if h.r.Chance(70) {
			hs = hex.EncodeToString([]byte(s))
		}
		o = guard(func() error { t := fxtypes.ParseFxTarget(hs, true); _ = t.GetTarget(); _ = t.String(); return nil })
		h.strCase("ParseFxTarget(hex)", hs, o, true)
		var b32 [32]byte
		copy(b32[:], s)
		o = guard(func() error { t := fxtypes.ParseFxTarget(fxtypes.Byte32ToString(b32)); _ = t.GetTarget(); return nil })
		h.strCase("ParseFxTarget(Byte32ToString)", s, o, true)
		// addresses
		o = guard(func() error { _, _, err := fxtypes.ParseAddress(s); return err })
		h.strCase("ParseAddress", s, o, true)
		chain := chains[h.r.Intn(len(chains))]
		o = guard(func() error { return crosschaintypes.ValidateExternalAddr(chain, s) })
		h.strCase("ValidateExternalAddr", s, o, true)
		if o.Class == "ok" {
			// the conversions the handlers apply to a validated external address
			o2 := guard(func() error {
				a := crosschaintypes.ExternalAddrToAccAddr(chain, s)
				x := crosschaintypes.ExternalAddrToHexAddr(chain, s)
				_ = crosschaintypes.ExternalAddrToStr(chain, x.Bytes())
				_ = a.String()
				return nil
			})
			h.strCase("ExternalAddrTo*(after validation)", s, o2, true)
		}
		o = guard(func() error { _, err := fxtypes.GetIbcDenomTrace("usdt", hs); return err })
		h.strCase("GetIbcDenomTrace", hs, o, true)
		o = guard(func() error { return crosschaintypes.ValidateModuleName(s) })
		h.strCase("ValidateModuleName", s, o, false)
	}
}
