package main

func (h *harness) stageModel()  {}
func (h *harness) replayKnown() {}
