package main

func (h *harness) stagePrecompiles() {}
func (h *harness) stageStrings()     {}
func (h *harness) stageAnte()        {}
func (h *harness) stageModel()       {}
func (h *harness) replayKnown()      {}
