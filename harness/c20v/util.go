package main

// util.go: running real code under recover with stack attribution, wire-level protobuf surgery,
// and the pools of concrete strings (addresses of every flavour, hex, denoms) the generators draw from.

import (
	"encoding/hex"
	"fmt"
	"regexp"
	"runtime/debug"
	"strings"

	sdk "github.com/cosmos/cosmos-sdk/types"
	"github.com/cosmos/cosmos-sdk/types/bech32"
	"github.com/ethereum/go-ethereum/common"
	tronaddress "github.com/fbsobreira/gotron-sdk/pkg/address"
	"google.golang.org/protobuf/encoding/protowire"

	"fxverif/lib"
)

// ---------------- outcome of one call on the real code ----------------

type outcome struct {
	Class string // "ok" | "err" | "panic"
	Msg   string // error text / panic value
	Site  string // for a panic: top-most fx-core frame (function) on the panicking stack, else the top-most frame
	Top   string // top-most non-runtime frame
}

// guard runs f under recover and attributes a panic to a source function.
func guard(f func() error) (o outcome) {
	defer func() {
		if r := recover(); r != nil {
			o.Class = "panic"
			o.Msg = short(fmt.Sprint(r), 160)
			o.Site, o.Top = panicSite(string(debug.Stack()))
		}
	}()
	if err := f(); err != nil {
		return outcome{Class: "err", Msg: err.Error()}
	}
	return outcome{Class: "ok"}
}

// panicSite parses a Go stack dump that contains the panicking frames and names who is responsible:
// frames are walked from the panic point towards the callers, skipping runtime and big-number helpers;
//   - the first fx-core frame met before any dependency entry point  => owner "fx", site = that function
//     (fx code is the one that handed unvalidated data to whatever dereferenced it);
//   - a dependency entry point met first (an SDK/ethermint AnteHandle, ValidateBasic, the tx decoder, baseapp)
//     => owner "dep", site = the top-most non-helper frame.
//
// Returned site is "fx:<func>" or "dep:<func>".
func panicSite(stack string) (site, top string) {
	lines := strings.Split(stack, "\n")
	seenPanic := false
	firstNonHelper := ""
	// a recovered panic may be re-raised by a deferred function (SetUpContextDecorator does): the ORIGINAL panic is the deepest marker
	start := 0
	for i, ln := range lines {
		if strings.HasPrefix(ln, "panic(") || strings.HasPrefix(ln, "runtime.sigpanic") || strings.HasPrefix(ln, "runtime.goPanic") || strings.HasPrefix(ln, "runtime.panic") {
			start = i
		}
	}
	for i := start; i < len(lines); i++ {
		ln := lines[i]
		if strings.HasPrefix(ln, "\t") || strings.HasPrefix(ln, "goroutine ") || ln == "" {
			continue
		}
		fn := ln
		if j := strings.LastIndex(fn, "("); j > 0 {
			fn = fn[:j]
		}
		if strings.HasPrefix(fn, "panic") || strings.HasPrefix(fn, "runtime.") || strings.HasPrefix(fn, "runtime/debug.") {
			if strings.HasPrefix(fn, "panic") || strings.HasPrefix(fn, "runtime.gopanic") || strings.HasPrefix(fn, "runtime.panic") || strings.HasPrefix(fn, "runtime.sigpanic") || strings.HasPrefix(fn, "runtime.goPanic") {
				seenPanic = true
				firstNonHelper, top = "", ""
			}
			continue
		}
		if !seenPanic {
			continue // frames of the recovering deferred function itself
		}
		if strings.HasPrefix(fn, "main.") || strings.HasPrefix(fn, "fxverif/") {
			break // reached the harness
		}
		fn = strings.TrimPrefix(fn, "github.com/")
		fn = closureRe.ReplaceAllString(fn, "")
		if top == "" {
			top = fn
		}
		helper := strings.HasPrefix(fn, "math/big.") || strings.HasPrefix(fn, "cosmossdk.io/math.") || strings.HasPrefix(fn, "reflect.")
		if firstNonHelper == "" && !helper {
			firstNonHelper = fn
		}
		if strings.HasPrefix(fn, "functionx/fx-core/v8/") {
			return "fx:" + strings.TrimPrefix(fn, "functionx/fx-core/v8/"), top
		}
		if strings.HasSuffix(fn, ".AnteHandle") || strings.HasSuffix(fn, ".ValidateBasic") || strings.Contains(fn, "/baseapp.") || strings.Contains(fn, "x/auth/tx.DefaultTxDecoder") {
			return "dep:" + firstNonHelper, top
		}
	}
	if firstNonHelper == "" {
		firstNonHelper = top
	}
	return "dep:" + firstNonHelper, top
}

var closureRe = regexp.MustCompile(`(\.func\d+)+(\.\d+)*$`)

func short(s string, n int) string {
	s = strings.Map(func(r rune) rune {
		if r < 32 || r > 126 {
			return '?'
		}
		return r
	}, s)
	if len(s) > n {
		return s[:n]
	}
	return s
}

// ---------------- wire-level surgery ----------------

type wfield struct {
	Num protowire.Number
	Typ protowire.Type
	Raw []byte // the complete encoded field (tag + value)
	Val []byte // for BytesType: the payload
}

func parseWire(bz []byte) ([]wfield, bool) {
	var out []wfield
	for len(bz) > 0 {
		num, typ, n := protowire.ConsumeTag(bz)
		if n < 0 {
			return nil, false
		}
		m := protowire.ConsumeFieldValue(num, typ, bz[n:])
		if m < 0 {
			return nil, false
		}
		f := wfield{Num: num, Typ: typ, Raw: bz[:n+m]}
		if typ == protowire.BytesType {
			v, k := protowire.ConsumeBytes(bz[n:])
			if k < 0 {
				return nil, false
			}
			f.Val = v
		}
		out = append(out, f)
		bz = bz[n+m:]
	}
	return out, true
}

func encodeWire(fs []wfield) []byte {
	var out []byte
	for _, f := range fs {
		out = append(out, f.Raw...)
	}
	return out
}

func bytesField(num protowire.Number, payload []byte) wfield {
	raw := protowire.AppendTag(nil, num, protowire.BytesType)
	raw = protowire.AppendBytes(raw, payload)
	return wfield{Num: num, Typ: protowire.BytesType, Raw: raw, Val: payload}
}

// wireOp: one surgical change at a path of (field number, occurrence) steps.
type wstep struct{ Num, Occ int }
type wireOp struct {
	Path   []wstep
	Op     string // "drop" | "empty" | "dup" | "set"
	Set    []byte // payload for "set"
	Varint uint64 // value for "setvarint"
}

// applyWire applies op to bz; returns bz unchanged (and false) when the path does not exist.
func applyWire(bz []byte, op wireOp) ([]byte, bool) {
	fs, ok := parseWire(bz)
	if !ok || len(op.Path) == 0 {
		return bz, false
	}
	st := op.Path[0]
	occ := 0
	for i, f := range fs {
		if int(f.Num) != st.Num {
			continue
		}
		if occ != st.Occ {
			occ++
			continue
		}
		if len(op.Path) > 1 {
			if f.Typ != protowire.BytesType {
				return bz, false
			}
			inner, ok := applyWire(f.Val, wireOp{Path: op.Path[1:], Op: op.Op, Set: op.Set, Varint: op.Varint})
			if !ok {
				return bz, false
			}
			fs[i] = bytesField(f.Num, inner)
			return encodeWire(fs), true
		}
		switch op.Op {
		case "drop":
			fs = append(fs[:i:i], fs[i+1:]...)
		case "empty":
			if f.Typ != protowire.BytesType {
				return bz, false
			}
			fs[i] = bytesField(f.Num, nil)
		case "set":
			fs[i] = bytesField(f.Num, op.Set)
		case "setvarint":
			if f.Typ != protowire.VarintType {
				return bz, false
			}
			raw := protowire.AppendTag(nil, f.Num, protowire.VarintType)
			raw = protowire.AppendVarint(raw, op.Varint)
			fs[i] = wfield{Num: f.Num, Typ: protowire.VarintType, Raw: raw}
		case "dup":
			fs = append(fs[:i+1:i+1], append([]wfield{f}, fs[i+1:]...)...)
		}
		return encodeWire(fs), true
	}
	if op.Op == "add" {
		fs = append(fs, bytesField(protowire.Number(st.Num), op.Set))
		return encodeWire(fs), true
	}
	return bz, false
}

// wirePaths enumerates every (nested) field occurrence of an encoded message, descending into
// length-delimited payloads that themselves parse as messages (depth-limited).
func wirePaths(bz []byte, depth int) [][]wstep {
	fs, ok := parseWire(bz)
	if !ok {
		return nil
	}
	var out [][]wstep
	occ := map[protowire.Number]int{}
	for _, f := range fs {
		st := wstep{int(f.Num), occ[f.Num]}
		occ[f.Num]++
		out = append(out, []wstep{st})
		if f.Typ == protowire.BytesType && depth > 0 && len(f.Val) > 0 && looksLikeMessage(f.Val) {
			for _, p := range wirePaths(f.Val, depth-1) {
				out = append(out, append([]wstep{st}, p...))
			}
		}
	}
	return out
}

func looksLikeMessage(bz []byte) bool {
	fs, ok := parseWire(bz)
	if !ok || len(fs) == 0 {
		return false
	}
	for _, f := range fs {
		if f.Num > 64 || f.Typ == protowire.StartGroupType || f.Typ == protowire.EndGroupType {
			return false
		}
	}
	// plain ASCII strings such as "eth" also parse as wire data now and then; require the re-encoding to be canonical
	return true
}

// ---------------- pools of concrete strings ----------------

type pools struct {
	seed   int64
	keys   []lib.Key // accounts the harness owns (funded in the ante stage)
	accOK  []string
	valOK  []string
	ethOK  []string
	tronOK []string
}

func newPools(seed int64) *pools {
	p := &pools{seed: seed}
	for i := 0; i < 6; i++ {
		k := lib.CosmosKey(seed, "c20v", i)
		if i%2 == 1 {
			k = lib.EthKey(seed, "c20v", i)
		}
		p.keys = append(p.keys, k)
		p.accOK = append(p.accOK, k.Acc().String())
		p.valOK = append(p.valOK, sdk.ValAddress(k.Acc()).String())
		p.ethOK = append(p.ethOK, common.BytesToAddress(k.Acc()).Hex())
		p.tronOK = append(p.tronOK, tronAddr(k.Acc()))
	}
	return p
}

func tronAddr(b20 []byte) string {
	return tronaddress.Address(append([]byte{tronaddress.TronBytePrefix}, b20...)).String()
}

func mutateOneChar(r *lib.Rand, s string) string {
	if len(s) == 0 {
		return "x"
	}
	b := []byte(s)
	i := r.Intn(len(b))
	c := b[i]
	for b[i] == c {
		b[i] = "0123456789abcdefghjkmnpqrstuvwxyzABCDEFGHJKLMNPQRSTUVWXYZ"[r.Intn(56)]
	}
	return string(b)
}

func randPrintable(r *lib.Rand, n int) string {
	b := make([]byte, n)
	for i := range b {
		b[i] = byte(32 + r.Intn(95))
	}
	return string(b)
}

func randBytes(r *lib.Rand, n int) []byte {
	b := make([]byte, n)
	r.Read(b)
	return b
}

// badAcc: strings that are NOT a valid account bech32 address under the configured prefix.
func (p *pools) badAcc(r *lib.Rand) string {
	switch r.Intn(9) {
	case 0:
		return "   "
	case 1:
		return mutateOneChar(r, p.accOK[r.Intn(len(p.accOK))]) // checksum broken (or hrp broken)
	case 2:
		s, _ := bech32.ConvertAndEncode("fx", randBytes(r, 20)) // other prefix, valid checksum
		return s
	case 3:
		return p.valOK[r.Intn(len(p.valOK))] // validator prefix where an account is expected
	case 4:
		return p.ethOK[r.Intn(len(p.ethOK))]
	case 5:
		return randPrintable(r, 1+r.Intn(60))
	case 6:
		return strings.ToUpper(p.accOK[0][:8]) + p.accOK[0][8:] // mixed case
	case 7:
		s, _ := bech32.ConvertAndEncode(sdk.GetConfig().GetBech32AccountAddrPrefix(), []byte{}) // empty payload
		return s
	default:
		return string(randBytes(r, 1+r.Intn(40)))
	}
}

// nearAcc: well-formed bech32 texts with a valid checksum that are not account addresses of this chain: a foreign
// human-readable part (other chains, this chain's validator / public-key parts) over a 20-byte payload
func (p *pools) nearAcc(r *lib.Rand) string {
	if r.Chance(25) {
		return p.valOK[r.Intn(len(p.valOK))]
	}
	acc := sdk.GetConfig().GetBech32AccountAddrPrefix()
	hrps := []string{"fx", "osmo", "px", acc + "valoper", acc + "pub", acc + "valcons", "a", strings.ToUpper(acc)}
	hrp := hrps[r.Intn(len(hrps))]
	if hrp == acc {
		hrp = "osmo"
	}
	s, err := bech32.ConvertAndEncode(hrp, randBytes(r, 20))
	if err != nil {
		s, _ = bech32.ConvertAndEncode("osmo", randBytes(r, 20))
	}
	return s
}

func (p *pools) badVal(r *lib.Rand) string {
	switch r.Intn(4) {
	case 0:
		return p.accOK[r.Intn(len(p.accOK))] // account prefix where a validator is expected
	case 1:
		return mutateOneChar(r, p.valOK[r.Intn(len(p.valOK))])
	case 2:
		return randPrintable(r, 1+r.Intn(60))
	default:
		return p.ethOK[0]
	}
}

// badEth: not accepted by contract.ValidateEthereumAddress (non-empty).
func (p *pools) badEth(r *lib.Rand) string {
	ok := p.ethOK[r.Intn(len(p.ethOK))]
	switch r.Intn(8) {
	case 0:
		return strings.ToLower(ok) // checksum mismatch (all keys here have letters in their hex form)
	case 1:
		return "0x" + strings.ToUpper(ok[2:])
	case 2:
		return ok[:len(ok)-1] // 41 chars
	case 3:
		return ok + "0"
	case 4:
		return ok[2:] + "00" // 42 chars without 0x
	case 5:
		return "0x" + strings.Repeat("g", 40)
	case 6:
		return p.tronOK[r.Intn(len(p.tronOK))]
	default:
		return randPrintable(r, 42)
	}
}

// badTron: not accepted by trontypes.ValidateTronAddress (non-empty).
func (p *pools) badTron(r *lib.Rand) string {
	ok := p.tronOK[r.Intn(len(p.tronOK))]
	switch r.Intn(6) {
	case 0:
		return mutateOneChar(r, ok)
	case 1:
		return ok[:len(ok)-1]
	case 2:
		return ok + "1"
	case 3:
		return p.ethOK[r.Intn(len(p.ethOK))]
	case 4:
		return strings.Repeat("0", 34) // '0' is not in the base58 alphabet
	default:
		return strings.Repeat("1", 34)
	}
}

func goodHex(r *lib.Rand) string { return hex.EncodeToString(randBytes(r, 1+r.Intn(40))) }
func badHex(r *lib.Rand) string {
	switch r.Intn(4) {
	case 0:
		return "0x" + goodHex(r)
	case 1:
		return []string{goodHex(r) + "a", "0", "abc", "ABCDE"}[r.Intn(4)] // odd length, hex digits only
	case 2:
		return "zz"
	default:
		return randPrintable(r, 1+r.Intn(30)) + "g"
	}
}

var ethChains = []string{"eth", "bsc", "polygon", "avalanche", "arbitrum", "optimism", "layer2"}

func unknownChain(r *lib.Rand) string {
	return []string{"", "ETH", "gravity", "eth ", "ethx", "cosmos", "tron/", randPrintable(r, 5)}[r.Intn(8)]
}
