package main

// world.go: a POPULATED state, built once on the real keepers/handlers before the hostile stages run, and — per message
// type — instances that are VALID AGAINST THAT STATE (their handler succeeds or at least gets past its look-ups).
// Panics hide behind state: a handler that first looks something up (oracle, pool transaction, batch, bridge call, token
// pair, delegation, proposal) only reaches its conversions, index expressions and arithmetic when the referenced object
// exists and the sender is registered. The handler stage mutates these instances field by field on the wire.
//
// Per crosschain module (all eight): three oracles approved by governance, two of them bonded (stakes 20000 / 10000 FX, so the
// first alone has quorum and the second alone has not), the native coin bound to an external contract, a user with funds,
// pool transactions (one batched, two unbatched), an outgoing bridge call, a pending (non-quorum) claim.
// Global: a delegation with an allowance through the staking precompile, an open governance proposal, the FX/WFX pair.
// Every step is attempted under recover; a step that fails is counted and the instances that need it are skipped.

import (
	"fmt"
	"math/big"

	sdkmath "cosmossdk.io/math"
	codectypes "github.com/cosmos/cosmos-sdk/codec/types"
	sdk "github.com/cosmos/cosmos-sdk/types"
	govv1 "github.com/cosmos/cosmos-sdk/x/gov/types/v1"
	"github.com/cosmos/gogoproto/proto"
	"github.com/ethereum/go-ethereum/common"

	crosschaintypes "github.com/functionx/fx-core/v8/x/crosschain/types"
	erc20types "github.com/functionx/fx-core/v8/x/erc20/types"
	fxgovtypes "github.com/functionx/fx-core/v8/x/gov/types"
	stakingtypes "github.com/functionx/fx-core/v8/x/staking/types"

	"fxverif/lib"
)

type chainWorld struct {
	chain       string
	x           *lib.XChain
	spare       *lib.Oracle // approved, not bonded
	fxContract  string      // external contract the native coin is bound to
	poolIDs     []uint64    // unbatched pool transactions of `user`
	batchNonce  uint64
	bridgeCall  uint64 // nonce of an outgoing bridge call (0 = none)
	pendingNext uint64 // event nonce of the pending claim
}

type world struct {
	user     lib.Key // cosmos key, funded
	ethUser  lib.Key // eth key, funded, has a delegation and granted an allowance
	spender  lib.Key
	chains   map[string]*chainWorld
	wfx      common.Address
	proposal uint64
	valAddr  string
}

func (h *harness) step(name string, f func() error) bool {
	o := guard(f)
	if o.Class != "ok" {
		h.rep.Count("world:step-failed:" + name)
		h.rep.Notes = append(h.rep.Notes, "world setup: "+name+": "+short(o.Msg, 160))
		return false
	}
	h.rep.Count("world:step-ok")
	return true
}

func (h *harness) buildWorld() {
	c := h.c
	w := &world{user: h.p.keys[0], ethUser: h.p.keys[1], spender: h.p.keys[3], chains: map[string]*chainWorld{}}
	h.w = w
	for _, k := range h.p.keys {
		c.Mint(k.Acc(), lib.FX(1_000_000))
	}
	w.valAddr = sdk.ValAddress(c.ValKeys[0].Acc()).String()
	chains := crosschaintypes.GetSupportChains()
	var fx *lib.Token
	if !h.step("SetupFX", func() error { fx = c.SetupFX(chains); return nil }) {
		return
	}
	w.wfx = fx.ERC20
	for _, chain := range chains {
		cw := &chainWorld{chain: chain, x: c.X(chain)}
		for _, a := range fx.Aliases {
			if a.Chain == chain {
				cw.fxContract = a.Contract
			}
		}
		x := cw.x
		ok := h.step("oracles:"+chain, func() error {
			var os []*lib.Oracle
			for i := 0; i < 3; i++ {
				o := x.NewOracle(i)
				os = append(os, o)
				c.Mint(o.Oracle.Acc(), lib.FX(500_000))
				c.Mint(o.Bridger.Acc(), lib.FX(1000))
			}
			if err := x.ProposeOracles(os); err != nil {
				return err
			}
			if err := x.Bond(os[0], 20000, 0); err != nil {
				return err
			}
			if err := x.Bond(os[1], 10000, 1); err != nil {
				return err
			}
			x.Oracles = os[:2]
			cw.spare = os[2]
			return nil
		})
		if !ok {
			continue
		}
		w.chains[chain] = cw
		// the external chain has been observed at some height (time-outs of batches / bridge calls are computed from it)
		h.step("observed-height:"+chain, func() error {
			x.Keeper.SetLastObservedBlockHeight(c.Ctx, 1000, uint64(c.Ctx.BlockHeight()))
			return nil
		})
		dest := lib.ExternalAccount(h.seed, chain, 5)
		send := func() error {
			return c.Try(func(ctx sdk.Context) error {
				_, err := x.Msg().SendToExternal(ctx, &crosschaintypes.MsgSendToExternal{Sender: w.user.Acc().String(), Dest: dest, Amount: fxCoin(1000), BridgeFee: fxCoin(10), ChainName: chain})
				return err
			})
		}
		h.step("pool-tx:"+chain, send)
		h.step("batch:"+chain, func() error {
			return c.Try(func(ctx sdk.Context) error {
				_, err := x.Msg().RequestBatch(ctx, &crosschaintypes.MsgRequestBatch{Sender: x.Oracles[0].Bridger.Acc().String(), Denom: "FX", MinimumFee: sdkmath.NewInt(1),
					FeeReceive: dest, ChainName: chain, BaseFee: sdkmath.ZeroInt()})
				return err
			})
		})
		if bs := x.Keeper.GetOutgoingTxBatches(c.Ctx); len(bs) > 0 {
			cw.batchNonce = bs[0].BatchNonce
		}
		h.step("pool-tx-2:"+chain, send)
		h.step("pool-tx-3:"+chain, send)
		for _, tx := range x.Keeper.GetUnbatchedTransactions(c.Ctx) {
			cw.poolIDs = append(cw.poolIDs, tx.Id)
		}
		h.step("bridge-call:"+chain, func() error {
			return c.Try(func(ctx sdk.Context) error {
				_, err := x.Msg().BridgeCall(ctx, &crosschaintypes.MsgBridgeCall{ChainName: chain, Sender: w.user.Acc().String(), Refund: w.user.Acc().String(),
					Coins: sdk.NewCoins(fxCoin(7)), To: dest, Data: "00", Value: sdkmath.ZeroInt(), Memo: ""})
				return err
			})
		})
		x.Keeper.IterateOutgoingBridgeCalls(c.Ctx, func(oc *crosschaintypes.OutgoingBridgeCall) bool { cw.bridgeCall = oc.Nonce; return true })
		cw.pendingNext = x.Keeper.GetLastObservedEventNonce(c.Ctx) + 1
		h.step("pending-claim:"+chain, func() error {
			return x.Claim(x.Oracles[1], &crosschaintypes.MsgSendToFxClaim{EventNonce: cw.pendingNext, BlockHeight: 100, TokenContract: cw.fxContract, Amount: sdkmath.NewInt(5),
				Sender: dest, Receiver: w.user.Acc().String(), TargetIbc: ""})
		})
	}
	// staking precompile: a delegation of ethUser with an allowance for spender
	stk := stakingtypes.GetABI()
	call := func(method string, args ...interface{}) error {
		data, err := stk.Pack(method, args...)
		if err != nil {
			return err
		}
		res, o := h.evmCall(c.Ctx, w.ethUser.Hex(), lib.StakingPrecompile, big.NewInt(0), 3_000_000, data)
		if o.Class != "ok" {
			return fmt.Errorf("%s: %s", o.Class, o.Msg)
		}
		if res.Failed() {
			return fmt.Errorf("reverted: %s", res.VmError)
		}
		return nil
	}
	h.step("delegateV2", func() error {
		return call("delegateV2", w.valAddr, new(big.Int).Mul(big.NewInt(1000), big.NewInt(1e18)))
	})
	h.step("approveShares", func() error {
		return call("approveShares", w.valAddr, w.spender.Hex(), new(big.Int).Mul(big.NewInt(100), big.NewInt(1e18)))
	})
	// an open governance proposal carrying an fx message
	h.step("proposal", func() error {
		inner := &fxgovtypes.MsgUpdateStore{Authority: lib.GovAuthority(), UpdateStores: []fxgovtypes.UpdateStore{{Space: "bank", Key: "ff01", OldValue: "", Value: "02"}}}
		m, err := govv1.NewMsgSubmitProposal([]sdk.Msg{inner}, sdk.NewCoins(lib.FX(1000)), w.user.Acc().String(), "", "title", "summary", false)
		if err != nil {
			return err
		}
		return c.Try(func(ctx sdk.Context) error {
			res, err := c.App.MsgServiceRouter().Handler(m)(ctx, m)
			if err != nil {
				return err
			}
			var r govv1.MsgSubmitProposalResponse
			if len(res.MsgResponses) > 0 && proto.Unmarshal(res.MsgResponses[0].Value, &r) == nil {
				w.proposal = r.ProposalId
			}
			return nil
		})
	})
}

// worldItem: a message valid against the populated state, encoded; who describes the setting for the report
type worldItem struct {
	url string
	msg proto.Message
	how string
}

// statefulBases: for every message type whose handler starts with a look-up, an instance that refers to existing objects
func (h *harness) statefulBases() []worldItem {
	w := h.w
	if w == nil {
		return nil
	}
	var out []worldItem
	const X = "/fx.gravity.crosschain.v1."
	gov := lib.GovAuthority()
	user := w.user.Acc().String()
	for _, chain := range crosschaintypes.GetSupportChains() {
		cw := w.chains[chain]
		if cw == nil {
			continue
		}
		x := cw.x
		o0, o1 := x.Oracles[0], x.Oracles[1]
		dest := lib.ExternalAccount(h.seed, chain, 6)
		add := func(name string, m proto.Message, how string) {
			out = append(out, worldItem{X + name, m, how + " on " + chain})
		}
		add("MsgBondedOracle", &crosschaintypes.MsgBondedOracle{ChainName: chain, OracleAddress: cw.spare.Oracle.Acc().String(), BridgerAddress: cw.spare.Bridger.Acc().String(),
			ExternalAddress: cw.spare.ExtAddr, ValidatorAddress: w.valAddr, DelegateAmount: sdk.NewCoin("FX", sdkmath.NewInt(10000).MulRaw(1e18))}, "approved unbonded oracle")
		add("MsgAddDelegate", &crosschaintypes.MsgAddDelegate{ChainName: chain, OracleAddress: o1.Oracle.Acc().String(), Amount: sdk.NewCoin("FX", sdkmath.NewInt(100).MulRaw(1e18))}, "bonded oracle")
		add("MsgReDelegate", &crosschaintypes.MsgReDelegate{ChainName: chain, OracleAddress: o0.Oracle.Acc().String(), ValidatorAddress: sdk.ValAddress(h.c.ValKeys[1].Acc()).String()}, "bonded oracle")
		add("MsgEditBridger", &crosschaintypes.MsgEditBridger{ChainName: chain, OracleAddress: o0.Oracle.Acc().String(), BridgerAddress: sdk.ValAddress(h.p.keys[5].Acc()).String()}, "bonded oracle")
		add("MsgWithdrawReward", &crosschaintypes.MsgWithdrawReward{ChainName: chain, OracleAddress: o0.Oracle.Acc().String()}, "bonded oracle")
		add("MsgUnbondedOracle", &crosschaintypes.MsgUnbondedOracle{ChainName: chain, OracleAddress: o1.Oracle.Acc().String()}, "bonded oracle")
		add("MsgSendToExternal", &crosschaintypes.MsgSendToExternal{Sender: user, Dest: dest, Amount: fxCoin(100), BridgeFee: fxCoin(3), ChainName: chain}, "funded user, registered token")
		for _, id := range cw.poolIDs {
			add("MsgCancelSendToExternal", &crosschaintypes.MsgCancelSendToExternal{TransactionId: id, Sender: user, ChainName: chain}, "existing pool tx")
			add("MsgIncreaseBridgeFee", &crosschaintypes.MsgIncreaseBridgeFee{ChainName: chain, TransactionId: id, Sender: user, AddBridgeFee: fxCoin(2)}, "existing pool tx")
			break
		}
		add("MsgRequestBatch", &crosschaintypes.MsgRequestBatch{Sender: o0.Bridger.Acc().String(), Denom: "FX", MinimumFee: sdkmath.NewInt(1), FeeReceive: dest, ChainName: chain, BaseFee: sdkmath.ZeroInt()}, "bridger, unbatched txs present")
		add("MsgBridgeCall", &crosschaintypes.MsgBridgeCall{ChainName: chain, Sender: user, Refund: user, Coins: sdk.NewCoins(fxCoin(5)), To: dest, Data: "00", Value: sdkmath.ZeroInt(), Memo: "01"}, "funded user")
		add("MsgUpdateParams", &crosschaintypes.MsgUpdateParams{ChainName: chain, Authority: gov, Params: crosschaintypes.DefaultParams()}, "gov authority")
		add("MsgUpdateChainOracles", &crosschaintypes.MsgUpdateChainOracles{ChainName: chain, Authority: gov, Oracles: []string{o0.Oracle.Acc().String(), o1.Oracle.Acc().String(), cw.spare.Oracle.Acc().String()}}, "gov authority")
	}
	E := "/fx.erc20.v1."
	out = append(out,
		worldItem{E + "MsgConvertCoin", &erc20types.MsgConvertCoin{Coin: fxCoin(1000), Receiver: w.ethUser.Hex().Hex(), Sender: user}, "funded user, FX pair"},
		worldItem{E + "MsgConvertERC20", &erc20types.MsgConvertERC20{ContractAddress: w.wfx.Hex(), Amount: sdkmath.NewInt(1), Receiver: user, Sender: w.ethUser.Hex().Hex()}, "registered pair"},
		worldItem{E + "MsgConvertDenom", &erc20types.MsgConvertDenom{Sender: user, Receiver: user, Coin: fxCoin(1), Target: "eth"}, "funded user"},
		worldItem{E + "MsgToggleTokenConversion", &erc20types.MsgToggleTokenConversion{Authority: gov, Token: w.wfx.Hex()}, "gov authority, registered pair"},
		worldItem{E + "MsgToggleTokenConversion", &erc20types.MsgToggleTokenConversion{Authority: gov, Token: "FX"}, "gov authority, registered denom"},
		worldItem{E + "MsgUpdateDenomAlias", &erc20types.MsgUpdateDenomAlias{Authority: gov, Denom: "FX", Alias: "eth0x0000000000000000000000000000000000000009"}, "gov authority, registered denom"},
	)
	return out
}

// claimBases: one claim of every type that the quorum oracle (oracles[0]) can execute against the populated state
func (h *harness) claimBases(cw *chainWorld) []crosschaintypes.ExternalClaim {
	x := cw.x
	next := cw.pendingNext
	dest := lib.ExternalAccount(h.seed, cw.chain, 6)
	user := h.w.user.Acc().String()
	var members []crosschaintypes.BridgeValidator
	for _, o := range x.Oracles {
		members = append(members, crosschaintypes.BridgeValidator{Power: 1000, ExternalAddress: o.ExtAddr})
	}
	out := []crosschaintypes.ExternalClaim{
		&crosschaintypes.MsgSendToFxClaim{EventNonce: next, BlockHeight: 100, TokenContract: cw.fxContract, Amount: sdkmath.NewInt(5), Sender: dest, Receiver: user, TargetIbc: ""},
		&crosschaintypes.MsgBridgeTokenClaim{EventNonce: next, BlockHeight: 100, TokenContract: lib.ExternalContract(h.seed, cw.chain, 321), Name: "Tether", Symbol: "USDT", Decimals: 6, ChannelIbc: ""},
		&crosschaintypes.MsgOracleSetUpdatedClaim{EventNonce: next, BlockHeight: 100, OracleSetNonce: 1, Members: members},
		&crosschaintypes.MsgBridgeCallClaim{EventNonce: next, BlockHeight: 100, Sender: dest, Refund: dest, TokenContracts: []string{cw.fxContract}, Amounts: []sdkmath.Int{sdkmath.NewInt(3)},
			To: dest, Data: "00", Value: sdkmath.ZeroInt(), Memo: "", TxOrigin: dest},
	}
	if cw.batchNonce > 0 {
		out = append(out, &crosschaintypes.MsgSendToExternalClaim{EventNonce: next, BlockHeight: 100, BatchNonce: cw.batchNonce, TokenContract: cw.fxContract})
	}
	if cw.bridgeCall > 0 {
		out = append(out, &crosschaintypes.MsgBridgeCallResultClaim{EventNonce: next, BlockHeight: 100, Nonce: cw.bridgeCall, TxOrigin: dest, Success: true, Cause: ""},
			&crosschaintypes.MsgBridgeCallResultClaim{EventNonce: next, BlockHeight: 100, Nonce: cw.bridgeCall, TxOrigin: dest, Success: false, Cause: "00"})
	}
	return out
}

var _ = codectypes.NewAnyWithValue
