package main

import (
	"fmt"
	"reflect"
	"sort"
	"strings"

	sdk "github.com/cosmos/cosmos-sdk/types"
	"github.com/cosmos/gogoproto/proto"

	"fxverif/lib"
)

func main() {
	c := lib.NewChain(1, 1, nil)
	reg := c.App.InterfaceRegistry()
	urls := reg.ListImplementations(sdk.MsgInterfaceProtoName)
	sort.Strings(urls)
	for _, u := range urls {
		if !(strings.HasPrefix(u, "/fx.") || strings.HasPrefix(u, "/ethermint.")) {
			continue
		}
		m, err := reg.Resolve(u)
		if err != nil {
			fmt.Println(u, "resolve err", err)
			continue
		}
		_, vb := m.(sdk.HasValidateBasic)
		_, gs := m.(interface{ GetSigners() []sdk.AccAddress })
		h := c.App.MsgServiceRouter().Handler(m.(sdk.Msg))
		t := reflect.TypeOf(m).Elem()
		var fs []string
		for i := 0; i < t.NumField(); i++ {
			f := t.Field(i)
			fs = append(fs, f.Name+":"+f.Type.String())
		}
		fmt.Printf("%s vb=%v legacyGS=%v handler=%v go=%s\n    %s\n", u, vb, gs, h != nil, proto.MessageName(m), strings.Join(fs, ", "))
	}
	// all interfaces
	for _, i := range reg.ListAllInterfaces() {
		impls := reg.ListImplementations(i)
		n := 0
		for _, u := range impls {
			if strings.HasPrefix(u, "/fx.") {
				n++
			}
		}
		if n > 0 {
			fmt.Println("iface", i, n)
		}
	}
}
