// gen_c01: translator for properties C01/C02.  Reads the fx-core sources under $VERIF_REPO with
// go/ast and writes Gen_Attest.v:
//   * the numeric constants the vote tally depends on (types/params.go, types/constant.go, and the
//     literal divisor in TryAttestation),
//   * for every function that writes one of the store keys the model covers (last observed nonce,
//     attestations, per-oracle cursor, parked claims, total power, oracle records and bridger index):
//     the list of (writer, enclosing function) call sites in the repository (non-test files), and the
//     functions that touch the raw key constructors.
// The Coq side (proofs/P_AttestGen.v) proves that this equals what the model M_Attest transcribes; a new
// writer outside the modelled functions, or a changed constant, breaks that theorem.
package main

import (
	"bytes"
	"fmt"
	"go/ast"
	"go/parser"
	"go/printer"
	"go/token"
	"os"
	"path/filepath"
	"sort"
	"strconv"
	"strings"
)

var writers = map[string]bool{
	"SetLastObservedEventNonce": true, "SetAttestation": true, "DeleteAttestation": true,
	"SetLastEventNonceByOracle": true, "DelLastEventNonceByOracle": true,
	"SavePendingExecuteClaim": true, "DeletePendingExecuteClaim": true,
	"SetLastTotalPower": true, "SetOracle": true, "DelOracle": true,
	"SetOracleAddrByBridgerAddr": true, "DelOracleAddrByBridgerAddr": true,
	"SlashOracle": true, "ExecuteClaim": true, "TryAttestation": true, "Attest": true,
}

var rawKeys = map[string]bool{
	"LastObservedEventNonceKey": true, "GetAttestationKey": true, "OracleAttestationKey": true,
	"GetLastEventNonceByOracleKey": true, "LastEventNonceByOracleKey": true,
	"GetPendingExecuteClaimKey": true, "PendingExecuteClaimKey": true, "LastTotalPowerKey": true,
	"GetOracleKey": true, "OracleKey": true, "GetOracleAddressByBridgerKey": true, "OracleAddressByBridgerKey": true,
}

func must(err error) {
	if err != nil {
		fmt.Fprintln(os.Stderr, "gen_c01:", err)
		os.Exit(1)
	}
}

type site struct{ callee, fn string }

func main() {
	repo := os.Getenv("VERIF_REPO")
	if repo == "" {
		repo = "/repo"
	}
	out := os.Getenv("VERIF_OUT")
	if out == "" {
		out = "."
	}
	fset := token.NewFileSet()

	// ---- constants ----
	consts := map[string]string{}
	pf, err := parser.ParseFile(fset, filepath.Join(repo, "x/crosschain/types/params.go"), nil, 0)
	must(err)
	ast.Inspect(pf, func(n ast.Node) bool {
		vs, ok := n.(*ast.ValueSpec)
		if !ok {
			return true
		}
		for i, name := range vs.Names {
			if i >= len(vs.Values) {
				continue
			}
			switch name.Name {
			case "MaxKeepEventSize", "MaxOracleSize":
				if bl, ok := vs.Values[i].(*ast.BasicLit); ok {
					consts[name.Name] = strings.ReplaceAll(bl.Value, "_", "")
				}
			case "AttestationVotesPowerThreshold", "AttestationProposalOracleChangePowerThreshold":
				if v, ok := newIntArg(vs.Values[i]); ok {
					consts[name.Name] = v
				}
			}
		}
		return true
	})
	// sdk.DefaultPowerReduction = NewIntFromBigInt(new(big.Int).Exp(big.NewInt(10), big.NewInt(20), nil))
	cf, err := parser.ParseFile(fset, filepath.Join(repo, "types/constant.go"), nil, 0)
	must(err)
	ast.Inspect(cf, func(n ast.Node) bool {
		as, ok := n.(*ast.AssignStmt)
		if !ok || len(as.Lhs) != 1 {
			return true
		}
		if sel, ok := as.Lhs[0].(*ast.SelectorExpr); ok && sel.Sel.Name == "DefaultPowerReduction" {
			var nums []string
			ast.Inspect(as.Rhs[0], func(m ast.Node) bool {
				if ce, ok := m.(*ast.CallExpr); ok {
					if s, ok := ce.Fun.(*ast.SelectorExpr); ok && s.Sel.Name == "NewInt" && len(ce.Args) == 1 {
						if bl, ok := ce.Args[0].(*ast.BasicLit); ok {
							nums = append(nums, bl.Value)
						}
					}
				}
				return true
			})
			if len(nums) == 2 {
				consts["PowerReductionBase"], consts["PowerReductionExp"] = nums[0], nums[1]
			}
		}
		return true
	})

	// ---- call sites in x/crosschain (keeper, precompile, types, module files), non-test ----
	var sites []site
	var rawUsers []site
	// the whole repository except tests, test utilities, generated bindings and client code
	skip := map[string]bool{"mock": true, "mocks": true, "testdata": true, "client": true, "tests": true, "testutil": true,
		"contract": true, "solidity": true, "node_modules": true, ".git": true, "docs": true, "scripts": true, "api": true}
	must(filepath.Walk(repo, func(path string, info os.FileInfo, err error) error {
		if err != nil {
			return err
		}
		if info.IsDir() {
			if skip[info.Name()] {
				return filepath.SkipDir
			}
			return nil
		}
		if !strings.HasSuffix(path, ".go") || strings.HasSuffix(path, "_test.go") || strings.HasSuffix(path, ".pb.go") || strings.HasSuffix(path, ".pb.gw.go") {
			return nil
		}
		f, err := parser.ParseFile(fset, path, nil, 0)
		if err != nil {
			return err
		}
		for _, d := range f.Decls {
			fd, ok := d.(*ast.FuncDecl)
			if !ok || fd.Body == nil {
				continue
			}
			fn := fd.Name.Name
			if fd.Recv != nil && len(fd.Recv.List) == 1 {
				fn = recvName(fd.Recv.List[0].Type) + "." + fn
			}
			ast.Inspect(fd.Body, func(n ast.Node) bool {
				switch x := n.(type) {
				case *ast.CallExpr:
					if s, ok := x.Fun.(*ast.SelectorExpr); ok && writers[s.Sel.Name] {
						sites = append(sites, site{s.Sel.Name, fn})
					}
					// the literal divisor of the required power in TryAttestation
					if fd.Name.Name == "TryAttestation" {
						if s, ok := x.Fun.(*ast.SelectorExpr); ok && s.Sel.Name == "Quo" && len(x.Args) == 1 {
							if v, ok := newIntArg(x.Args[0]); ok {
								consts["TallyDivisor"] = v
							}
						}
					}
				case *ast.SelectorExpr:
					if id, ok := x.X.(*ast.Ident); ok && (id.Name == "types" || id.Name == "crosschaintypes") && rawKeys[x.Sel.Name] {
						rawUsers = append(rawUsers, site{x.Sel.Name, fn})
					}
				}
				return true
			})
		}
		return nil
	}))

	// GetAllOracles walks the whole oracle store: loop condition and exits of its for statement
	allOraclesLoop := "not found"
	of, err := parser.ParseFile(fset, filepath.Join(repo, "x/crosschain/keeper/oracle.go"), nil, 0)
	must(err)
	for _, d := range of.Decls {
		fd, ok := d.(*ast.FuncDecl)
		if !ok || fd.Name.Name != "GetAllOracles" || fd.Body == nil {
			continue
		}
		for _, st := range fd.Body.List {
			fs, ok := st.(*ast.ForStmt)
			if !ok {
				continue
			}
			var cond, post bytes.Buffer
			if fs.Cond != nil {
				printer.Fprint(&cond, fset, fs.Cond)
			}
			if fs.Post != nil {
				printer.Fprint(&post, fset, fs.Post)
			}
			exits := 0
			ast.Inspect(fs.Body, func(n ast.Node) bool {
				switch x := n.(type) {
				case *ast.BranchStmt:
					if x.Tok == token.BREAK || x.Tok == token.GOTO {
						exits++
					}
				case *ast.ReturnStmt:
					exits++
				}
				return true
			})
			allOraclesLoop = fmt.Sprintf("for init=%v; %s; %s; early exits=%d", fs.Init != nil, cond.String(), post.String(), exits)
		}
	}

	need := []string{"MaxKeepEventSize", "MaxOracleSize", "AttestationVotesPowerThreshold",
		"AttestationProposalOracleChangePowerThreshold", "PowerReductionBase", "PowerReductionExp", "TallyDivisor"}
	for _, k := range need {
		if _, ok := consts[k]; !ok {
			must(fmt.Errorf("constant %s not found in the shape expected", k))
		}
		if _, err := strconv.ParseInt(consts[k], 10, 64); err != nil {
			must(fmt.Errorf("constant %s = %q is not a plain integer literal", k, consts[k]))
		}
	}

	uniq := func(l []site) []string {
		m := map[string]bool{}
		for _, s := range l {
			m[s.callee+" <- "+s.fn] = true
		}
		var out []string
		for k := range m {
			out = append(out, k)
		}
		sort.Strings(out)
		return out
	}
	var sb strings.Builder
	sb.WriteString("(* generated by harness/gen_c01 from the fx-core sources; do not edit *)\n")
	sb.WriteString("From Coq Require Import ZArith List String.\nImport ListNotations.\nOpen Scope Z_scope.\nOpen Scope string_scope.\n\n")
	fmt.Fprintf(&sb, "Definition gen_vote_threshold : Z := %s.\n", consts["AttestationVotesPowerThreshold"])
	fmt.Fprintf(&sb, "Definition gen_tally_divisor : Z := %s.\n", consts["TallyDivisor"])
	fmt.Fprintf(&sb, "Definition gen_change_threshold : Z := %s.\n", consts["AttestationProposalOracleChangePowerThreshold"])
	fmt.Fprintf(&sb, "Definition gen_max_keep : Z := %s.\n", consts["MaxKeepEventSize"])
	fmt.Fprintf(&sb, "Definition gen_max_oracles : Z := %s.\n", consts["MaxOracleSize"])
	fmt.Fprintf(&sb, "Definition gen_power_reduction : Z := %s ^ %s.\n\n", consts["PowerReductionBase"], consts["PowerReductionExp"])
	fmt.Fprintf(&sb, "(* the loop of Keeper.GetAllOracles: it must visit every oracle record (no bound, no early exit) *)\nDefinition gen_getalloracles_loop : string := %s.\n\n", strconv.Quote(allOraclesLoop))
	sb.WriteString("(* \"writer <- enclosing function\" for every call of a function that writes a modelled store key *)\n")
	sb.WriteString("Definition gen_writer_sites : list string :=\n  [")
	for i, s := range uniq(sites) {
		if i > 0 {
			sb.WriteString(";\n   ")
		}
		sb.WriteString(strconv.Quote(s))
	}
	sb.WriteString("].\n\n(* \"key constructor <- function\" for every use of a raw key of the modelled stores *)\n")
	sb.WriteString("Definition gen_raw_key_users : list string :=\n  [")
	for i, s := range uniq(rawUsers) {
		if i > 0 {
			sb.WriteString(";\n   ")
		}
		sb.WriteString(strconv.Quote(s))
	}
	sb.WriteString("].\n")
	must(os.MkdirAll(out, 0o755))
	must(os.WriteFile(filepath.Join(out, "Gen_Attest.v"), []byte(sb.String()), 0o644))
}

func newIntArg(e ast.Expr) (string, bool) {
	ce, ok := e.(*ast.CallExpr)
	if !ok || len(ce.Args) != 1 {
		return "", false
	}
	s, ok := ce.Fun.(*ast.SelectorExpr)
	if !ok || s.Sel.Name != "NewInt" {
		return "", false
	}
	bl, ok := ce.Args[0].(*ast.BasicLit)
	if !ok {
		return "", false
	}
	return strings.ReplaceAll(bl.Value, "_", ""), true
}

func recvName(e ast.Expr) string {
	switch t := e.(type) {
	case *ast.StarExpr:
		return recvName(t.X)
	case *ast.Ident:
		return t.Name
	}
	return "?"
}
