// Package extract is the C03 translator (T-gen): it reads the CURRENT sources of
// x/crosschain/types and x/crosschain/keeper under the checked tree with go/ast and
// extracts, for each of the six ExternalClaim message types,
//
//   - the full field list of the generated struct (tx.pb.go) with Go types,
//   - the fmt.Sprintf format string and argument list of its ClaimHash() method, as a
//     list of rendering tokens (how every argument is rendered by fmt is decided from the
//     verb and the static type of the argument),
//   - what ValidateBasic guarantees about the characters of each field (address, bech32,
//     hex, non-empty, non-negative), by recognising the validation statements,
//   - the fields read by the execution handlers (SendToFxExecuted, BridgeCallHandler, ...,
//     the type switches of AttestationHandler/ExecuteClaim and TryAttestation).
//
// Anything that does not have the expected shape is an error (the tie is broken and the
// check reports it); unrecognised validation statements only weaken the extracted class.
package extract

import (
	"fmt"
	"go/ast"
	"go/parser"
	"go/token"
	"os"
	"path/filepath"
	"sort"
	"strconv"
	"strings"
)

// ClaimTypes in a fixed order; Short is the Coq identifier suffix.
var ClaimTypes = []struct{ Go, Short string }{
	{"MsgSendToFxClaim", "SendToFx"},
	{"MsgBridgeCallClaim", "BridgeCall"},
	{"MsgBridgeCallResultClaim", "BridgeCallResult"},
	{"MsgSendToExternalClaim", "SendToExternal"},
	{"MsgBridgeTokenClaim", "BridgeToken"},
	{"MsgOracleSetUpdatedClaim", "OracleSetUpdated"},
}

// Irrelevant are the fields that never influence what is executed (see docs/C03.md):
// the voter's own bridger address and the chain name (address decoding is determined by the
// address strings themselves; every handler works on k.moduleName).
var Irrelevant = []string{"BridgerAddress", "ChainName"}

type Field struct {
	Name  string `json:"name"`
	GoTy  string `json:"go_type"`
	Kind  string `json:"kind"`  // u64 | str | int | bool | strlist | intlist | members
	Class string `json:"class"` // strings / elements: free|nonempty|hex|bech32|addr ; int: nonneg|any ; else ""
}

type Tok struct {
	Kind  string `json:"kind"` // lit | u64 | str | int | bool | strlist | intlist | members | hexstr
	Lit   string `json:"lit,omitempty"`
	Field string `json:"field,omitempty"`
}

type Claim struct {
	Go      string   `json:"go_type"`
	Short   string   `json:"short"`
	Format  string   `json:"format"`
	Args    []string `json:"args"`
	Fields  []Field  `json:"fields"`
	Toks    []Tok    `json:"tokens"`
	Read    []string `json:"read_by_handlers"`
	Escapes []string `json:"escapes,omitempty"` // places where the whole claim object leaves the analysed code (then every field counts as read)
	Err     string   `json:"error,omitempty"`   // the ClaimHash of this type could not be extracted (fields/classes/reads still are)
}

type Table struct {
	Claims []*Claim `json:"claims"`
}

func (t *Table) Get(goType string) *Claim {
	for _, c := range t.Claims {
		if c.Go == goType {
			return c
		}
	}
	return nil
}

func (c *Claim) Field(name string) *Field {
	for i := range c.Fields {
		if c.Fields[i].Name == name {
			return &c.Fields[i]
		}
	}
	return nil
}

func (c *Claim) Hashed(name string) bool {
	if c.Err != "" {
		return true // unknown: assume hashed
	}
	for _, t := range c.Toks {
		if t.Field == name {
			return true
		}
	}
	return false
}

func IsIrrelevant(name string) bool {
	for _, n := range Irrelevant {
		if n == name {
			return true
		}
	}
	return false
}

// ---------------------------------------------------------------------------------------

type pkgInfo struct {
	fset    *token.FileSet
	files   map[string]*ast.File
	structs map[string]*ast.StructType
	// methods[type][name]
	methods map[string]map[string]*ast.FuncDecl
	// value-receiver method names per type
	valueRecv map[string]map[string]bool
	imports   map[*ast.File]map[string]string // alias -> path
	fileOf    map[*ast.FuncDecl]*ast.File
	funcs     []*ast.FuncDecl
}

func loadDir(dir string) (*pkgInfo, error) {
	fset := token.NewFileSet()
	ents, err := os.ReadDir(dir)
	if err != nil {
		return nil, err
	}
	p := &pkgInfo{fset: fset, files: map[string]*ast.File{}, structs: map[string]*ast.StructType{},
		methods: map[string]map[string]*ast.FuncDecl{}, valueRecv: map[string]map[string]bool{},
		imports: map[*ast.File]map[string]string{}, fileOf: map[*ast.FuncDecl]*ast.File{}}
	for _, e := range ents {
		n := e.Name()
		if e.IsDir() || !strings.HasSuffix(n, ".go") || strings.HasSuffix(n, "_test.go") {
			continue
		}
		f, err := parser.ParseFile(fset, filepath.Join(dir, n), nil, parser.SkipObjectResolution)
		if err != nil {
			return nil, err
		}
		p.files[n] = f
		imps := map[string]string{}
		for _, im := range f.Imports {
			path, _ := strconv.Unquote(im.Path.Value)
			alias := path[strings.LastIndex(path, "/")+1:]
			if im.Name != nil {
				alias = im.Name.Name
			}
			imps[alias] = path
		}
		p.imports[f] = imps
		for _, d := range f.Decls {
			switch d := d.(type) {
			case *ast.GenDecl:
				for _, s := range d.Specs {
					if ts, ok := s.(*ast.TypeSpec); ok {
						if st, ok := ts.Type.(*ast.StructType); ok {
							p.structs[ts.Name.Name] = st
						}
					}
				}
			case *ast.FuncDecl:
				p.fileOf[d] = f
				p.funcs = append(p.funcs, d)
				if d.Recv != nil && len(d.Recv.List) == 1 {
					rt := d.Recv.List[0].Type
					ptr := false
					if s, ok := rt.(*ast.StarExpr); ok {
						rt, ptr = s.X, true
					}
					if id, ok := rt.(*ast.Ident); ok {
						if p.methods[id.Name] == nil {
							p.methods[id.Name] = map[string]*ast.FuncDecl{}
							p.valueRecv[id.Name] = map[string]bool{}
						}
						p.methods[id.Name][d.Name.Name] = d
						if !ptr {
							p.valueRecv[id.Name][d.Name.Name] = true
						}
					}
				}
			}
		}
	}
	return p, nil
}

func (p *pkgInfo) pos(n ast.Node) string { return p.fset.Position(n.Pos()).String() }

// typeString renders a field type; package qualifiers are replaced by the import path.
func typeString(e ast.Expr, imps map[string]string) string {
	switch t := e.(type) {
	case *ast.Ident:
		return t.Name
	case *ast.SelectorExpr:
		if id, ok := t.X.(*ast.Ident); ok {
			if path, ok := imps[id.Name]; ok {
				return path + "." + t.Sel.Name
			}
			return id.Name + "." + t.Sel.Name
		}
	case *ast.ArrayType:
		if t.Len == nil {
			return "[]" + typeString(t.Elt, imps)
		}
	case *ast.StarExpr:
		return "*" + typeString(t.X, imps)
	}
	return fmt.Sprintf("?%T", e)
}

const sdkInt = "cosmossdk.io/math.Int"

func kindOfType(ty string) string {
	switch ty {
	case "uint64":
		return "u64"
	case "string":
		return "str"
	case "bool":
		return "bool"
	case sdkInt:
		return "int"
	case "[]string":
		return "strlist"
	case "[]" + sdkInt:
		return "intlist"
	case "[]BridgeValidator":
		return "members"
	}
	return ""
}

func recvName(fd *ast.FuncDecl) string {
	if fd.Recv != nil && len(fd.Recv.List) == 1 && len(fd.Recv.List[0].Names) == 1 {
		return fd.Recv.List[0].Names[0].Name
	}
	return ""
}

// selOn returns F if e is <id>.F
func selOn(e ast.Expr, id string) (string, bool) {
	if s, ok := e.(*ast.SelectorExpr); ok {
		if x, ok := s.X.(*ast.Ident); ok && x.Name == id {
			return s.Sel.Name, true
		}
	}
	return "", false
}

func isPkgCall(e ast.Expr, pkg, fn string) (*ast.CallExpr, bool) {
	c, ok := e.(*ast.CallExpr)
	if !ok {
		return nil, false
	}
	if s, ok := c.Fun.(*ast.SelectorExpr); ok {
		if x, ok := s.X.(*ast.Ident); ok && x.Name == pkg && s.Sel.Name == fn {
			return c, true
		}
	}
	return nil, false
}

// ---------------------------------------------------------------------------------------

// Extract reads <repo>/x/crosschain/{types,keeper}.  If only some ClaimHash method has an unexpected shape the
// table is still returned (that claim has Err set and no tokens) together with the error.
func Extract(repo string) (*Table, error) {
	tp, err := loadDir(filepath.Join(repo, "x", "crosschain", "types"))
	if err != nil {
		return nil, err
	}
	kp, err := loadDir(filepath.Join(repo, "x", "crosschain", "keeper"))
	if err != nil {
		return nil, err
	}
	// the executeClaim precompile path lives in x/crosschain/precompile: its functions are walked like the keeper's
	if pp, err := loadDir(filepath.Join(repo, "x", "crosschain", "precompile")); err == nil {
		kp.funcs = append(kp.funcs, pp.funcs...)
	} else {
		return nil, err
	}
	msgs := tp.files["msgs.go"]
	if msgs == nil {
		return nil, fmt.Errorf("x/crosschain/types/msgs.go not found")
	}

	// the set of ExternalClaim implementations declared in msgs.go must be exactly the six we model
	impls := map[string]bool{}
	for _, d := range msgs.Decls {
		gd, ok := d.(*ast.GenDecl)
		if !ok || gd.Tok != token.VAR {
			continue
		}
		for _, s := range gd.Specs {
			vs := s.(*ast.ValueSpec)
			if id, ok := vs.Type.(*ast.Ident); ok && id.Name == "ExternalClaim" && len(vs.Values) == 1 {
				if u, ok := vs.Values[0].(*ast.UnaryExpr); ok {
					if cl, ok := u.X.(*ast.CompositeLit); ok {
						if tid, ok := cl.Type.(*ast.Ident); ok {
							impls[tid.Name] = true
						}
					}
				}
			}
		}
	}
	for ty := range tp.methods {
		if _, ok := tp.methods[ty]["ClaimHash"]; ok {
			impls[ty] = true
		}
	}
	want := map[string]bool{}
	for _, ct := range ClaimTypes {
		want[ct.Go] = true
	}
	for ty := range impls {
		if !want[ty] {
			return nil, fmt.Errorf("claim type %s has a ClaimHash/ExternalClaim implementation but is not modelled (six types expected)", ty)
		}
	}

	// BridgeValidator must be a plain struct {Power uint64; ExternalAddress string} printed by %v as "{p a}"
	bv := tp.structs["BridgeValidator"]
	if bv == nil {
		return nil, fmt.Errorf("struct BridgeValidator not found")
	}
	var bvf []string
	for _, f := range bv.Fields.List {
		for _, n := range f.Names {
			bvf = append(bvf, n.Name+" "+typeString(f.Type, nil))
		}
	}
	if strings.Join(bvf, ";") != "Power uint64;ExternalAddress string" {
		return nil, fmt.Errorf("BridgeValidator fields changed: %v (expected Power uint64; ExternalAddress string)", bvf)
	}
	for _, m := range []string{"String", "Format", "Error", "GoString"} {
		if tp.valueRecv["BridgeValidator"][m] {
			return nil, fmt.Errorf("BridgeValidator now has a value-receiver %s method: %%v of []BridgeValidator no longer prints {power addr}", m)
		}
	}

	tab := &Table{}
	var firstErr error
	for _, ct := range ClaimTypes {
		c := &Claim{Go: ct.Go, Short: ct.Short}
		st := tp.structs[ct.Go]
		if st == nil {
			return nil, fmt.Errorf("struct %s not found in x/crosschain/types", ct.Go)
		}
		// locate the file of the struct for import aliases
		var imps map[string]string
		for _, f := range tp.files {
			for _, d := range f.Decls {
				if gd, ok := d.(*ast.GenDecl); ok {
					for _, s := range gd.Specs {
						if ts, ok := s.(*ast.TypeSpec); ok && ts.Name.Name == ct.Go {
							imps = tp.imports[f]
						}
					}
				}
			}
		}
		for _, f := range st.Fields.List {
			ty := typeString(f.Type, imps)
			for _, n := range f.Names {
				if strings.HasPrefix(n.Name, "XXX_") {
					continue
				}
				k := kindOfType(ty)
				if k == "" {
					return nil, fmt.Errorf("%s.%s has unsupported type %s", ct.Go, n.Name, ty)
				}
				cl := ""
				switch k {
				case "str", "strlist", "members":
					cl = "free"
				case "int":
					cl = "any"
				}
				c.Fields = append(c.Fields, Field{Name: n.Name, GoTy: ty, Kind: k, Class: cl})
			}
		}
		if err := extractHash(tp, msgs, c); err != nil {
			// keep going: the harness can still run its monitors on this type; the translator as a whole fails
			c.Err = err.Error()
			c.Toks, c.Args = nil, nil
			if firstErr == nil {
				firstErr = err
			}
		}
		if err := extractValidation(tp, c); err != nil {
			return nil, err
		}
		if err := extractReads(tp, kp, c); err != nil {
			return nil, err
		}
		tab.Claims = append(tab.Claims, c)
	}
	return tab, firstErr
}

// extractHash: ClaimHash must be
//
//	path := fmt.Sprintf("<format>", args...)
//	return tmhash.Sum([]byte(path))
func extractHash(tp *pkgInfo, msgs *ast.File, c *Claim) error {
	fd := tp.methods[c.Go]["ClaimHash"]
	if fd == nil {
		return fmt.Errorf("%s has no ClaimHash method", c.Go)
	}
	bad := func(n ast.Node, why string) error {
		return fmt.Errorf("%s: %s.ClaimHash is no longer `path := fmt.Sprintf(fmt, fields...); return tmhash.Sum([]byte(path))`: %s", tp.pos(n), c.Go, why)
	}
	if tp.fileOf[fd] != msgs {
		return bad(fd, "not declared in msgs.go")
	}
	imps := tp.imports[msgs]
	if imps["fmt"] != "fmt" || imps["tmhash"] != "github.com/cometbft/cometbft/crypto/tmhash" {
		return bad(fd, "fmt/tmhash imports changed")
	}
	m := recvName(fd)
	if m == "" || fd.Body == nil || len(fd.Body.List) != 2 {
		return bad(fd, "body is not two statements")
	}
	as, ok := fd.Body.List[0].(*ast.AssignStmt)
	if !ok || as.Tok != token.DEFINE || len(as.Lhs) != 1 || len(as.Rhs) != 1 {
		return bad(fd.Body.List[0], "first statement is not a := definition")
	}
	pathVar, ok := as.Lhs[0].(*ast.Ident)
	if !ok {
		return bad(as, "lhs")
	}
	call, ok := isPkgCall(as.Rhs[0], "fmt", "Sprintf")
	if !ok || len(call.Args) < 1 || call.Ellipsis.IsValid() {
		return bad(as, "rhs is not fmt.Sprintf(...)")
	}
	lit, ok := call.Args[0].(*ast.BasicLit)
	if !ok || lit.Kind != token.STRING {
		return bad(call, "format is not a string literal")
	}
	format, err := strconv.Unquote(lit.Value)
	if err != nil {
		return bad(lit, err.Error())
	}
	ret, ok := fd.Body.List[1].(*ast.ReturnStmt)
	if !ok || len(ret.Results) != 1 {
		return bad(fd.Body.List[1], "second statement is not a single return")
	}
	sum, ok := isPkgCall(ret.Results[0], "tmhash", "Sum")
	if !ok || len(sum.Args) != 1 {
		return bad(ret, "does not return tmhash.Sum(...)")
	}
	conv, ok := sum.Args[0].(*ast.CallExpr)
	if !ok || len(conv.Args) != 1 {
		return bad(ret, "argument of tmhash.Sum is not []byte(path)")
	}
	if at, ok := conv.Fun.(*ast.ArrayType); !ok || at.Len != nil || typeString(at.Elt, nil) != "byte" {
		return bad(ret, "argument of tmhash.Sum is not []byte(path)")
	}
	if id, ok := conv.Args[0].(*ast.Ident); !ok || id.Name != pathVar.Name {
		return bad(ret, "tmhash.Sum is not applied to the Sprintf result")
	}
	c.Format = format

	// parse the format
	type verb struct{ v byte }
	var pieces []interface{} // string literal | verb
	cur := ""
	for i := 0; i < len(format); i++ {
		ch := format[i]
		if ch != '%' {
			cur += string(ch)
			continue
		}
		if i+1 >= len(format) {
			return bad(lit, "dangling %")
		}
		i++
		switch format[i] {
		case '%':
			cur += "%"
		case 'd', 's', 'v', 't', 'x':
			if cur != "" {
				pieces = append(pieces, cur)
				cur = ""
			}
			pieces = append(pieces, verb{format[i]})
		default:
			return bad(lit, fmt.Sprintf("unsupported verb/flag %%%c", format[i]))
		}
	}
	if cur != "" {
		pieces = append(pieces, cur)
	}
	args := call.Args[1:]
	ai := 0
	for _, pc := range pieces {
		if s, ok := pc.(string); ok {
			c.Toks = append(c.Toks, Tok{Kind: "lit", Lit: s})
			continue
		}
		v := pc.(verb).v
		if ai >= len(args) {
			return bad(call, "fewer arguments than verbs")
		}
		arg := args[ai]
		ai++
		// m.F  or  m.F.String()
		fname, viaString := "", false
		if f, ok := selOn(arg, m); ok {
			fname = f
		} else if ce, ok := arg.(*ast.CallExpr); ok && len(ce.Args) == 0 {
			if s, ok := ce.Fun.(*ast.SelectorExpr); ok && s.Sel.Name == "String" {
				if f, ok := selOn(s.X, m); ok {
					fname, viaString = f, true
				}
			}
		}
		fld := c.Field(fname)
		if fname == "" || fld == nil {
			return bad(arg, "argument is neither m.<Field> nor m.<Field>.String()")
		}
		c.Args = append(c.Args, fname)
		kind := ""
		switch {
		case viaString && fld.Kind == "int" && (v == 's' || v == 'v'):
			kind = "int" // sdkmath.Int.String(): decimal, "<nil>" for the nil Int
		case viaString:
			return bad(arg, ".String() on a "+fld.GoTy+" field")
		case fld.Kind == "u64" && (v == 'd' || v == 'v'):
			kind = "u64"
		case fld.Kind == "str" && (v == 's' || v == 'v'):
			kind = "str"
		case fld.Kind == "str" && v == 'x':
			kind = "hexstr" // two lowercase hex digits per byte
		case fld.Kind == "bool" && (v == 't' || v == 'v'):
			kind = "bool"
		case fld.Kind == "int" && (v == 's' || v == 'v'):
			kind = "int" // value-receiver Stringer
		case fld.Kind == "strlist" && (v == 's' || v == 'v'):
			kind = "strlist" // "[a b c]"
		case fld.Kind == "strlist" && v == 'x':
			kind = "hexstrlist" // "[6162 63]": every element in lowercase hex
		case fld.Kind == "intlist" && (v == 's' || v == 'v'):
			kind = "intlist" // "[1 2 3]" through the value-receiver Stringer of each element
		case fld.Kind == "members" && v == 'v':
			kind = "members" // "[{p a} {p a}]": struct values, the String method has a pointer receiver
		default:
			return bad(arg, fmt.Sprintf("verb %%%c applied to a %s field: rendering not modelled", v, fld.GoTy))
		}
		c.Toks = append(c.Toks, Tok{Kind: kind, Field: fname})
	}
	if ai != len(args) {
		return bad(call, "more arguments than verbs")
	}
	return nil
}

// extractValidation recognises the character-constraining statements of ValidateBasic
// (following `return m.<helper>()`), strengthening the class of the fields they guard.
func extractValidation(tp *pkgInfo, c *Claim) error {
	fd := tp.methods[c.Go]["ValidateBasic"]
	if fd == nil {
		return fmt.Errorf("%s has no ValidateBasic", c.Go)
	}
	seen := map[string]bool{}
	var walk func(fd *ast.FuncDecl) error
	setClass := func(field, class string) {
		if f := c.Field(field); f != nil {
			// never weaken; "nonempty" is overridden by a character class
			if f.Class == "free" || f.Class == "any" || (f.Class == "nonempty" && class != "nonempty") {
				f.Class = class
			}
		}
	}
	returnsErr := func(b *ast.BlockStmt) bool {
		if b == nil || len(b.List) == 0 {
			return false
		}
		r, ok := b.List[len(b.List)-1].(*ast.ReturnStmt)
		if !ok || len(r.Results) != 1 {
			return false
		}
		if id, ok := r.Results[0].(*ast.Ident); ok && id.Name == "nil" {
			return false
		}
		return true
	}
	isErrNeNil := func(e ast.Expr) bool {
		b, ok := e.(*ast.BinaryExpr)
		if !ok || b.Op != token.NEQ {
			return false
		}
		x, ok1 := b.X.(*ast.Ident)
		y, ok2 := b.Y.(*ast.Ident)
		return ok1 && ok2 && x.Name == "err" && y.Name == "nil"
	}
	lenOf := func(e ast.Expr, m string) (string, bool) { // len(m.F)
		ce, ok := e.(*ast.CallExpr)
		if !ok || len(ce.Args) != 1 {
			return "", false
		}
		if id, ok := ce.Fun.(*ast.Ident); !ok || id.Name != "len" {
			return "", false
		}
		return selOn(ce.Args[0], m)
	}
	isZero := func(e ast.Expr) bool {
		l, ok := e.(*ast.BasicLit)
		return ok && l.Value == "0"
	}
	// subject resolves an expression to (field, isElem): m.F, loop variable v (element of F) or v.ExternalAddress
	type loopT struct{ v, field string }
	subject := func(e ast.Expr, m string, loop *loopT) (string, bool, bool) {
		if f, ok := selOn(e, m); ok {
			return f, false, true
		}
		if loop != nil {
			if id, ok := e.(*ast.Ident); ok && id.Name == loop.v {
				return loop.field, true, true
			}
			if f, ok := selOn(e, loop.v); ok && f == "ExternalAddress" {
				return loop.field, true, true
			}
		}
		return "", false, false
	}
	var stmts func(list []ast.Stmt, m string, loop *loopT, guardHexField string) error
	stmts = func(list []ast.Stmt, m string, loop *loopT, guardNonEmptyOf string) error {
		for _, s := range list {
			switch s := s.(type) {
			case *ast.IfStmt:
				if s.Else != nil {
					continue
				}
				// guard `if len(m.F) > 0 { if _, err = hex.DecodeString(m.F); err != nil { return } }`
				if s.Init == nil {
					if b, ok := s.Cond.(*ast.BinaryExpr); ok && b.Op == token.GTR && isZero(b.Y) {
						if f, ok := lenOf(b.X, m); ok && !returnsErr(s.Body) {
							if err := stmts(s.Body.List, m, loop, f); err != nil {
								return err
							}
							continue
						}
					}
				}
				if !returnsErr(s.Body) {
					continue
				}
				if s.Init != nil {
					as, ok := s.Init.(*ast.AssignStmt)
					if !ok || len(as.Rhs) != 1 {
						continue
					}
					if call, ok := isPkgCall(as.Rhs[0], "sdk", "AccAddressFromBech32"); ok && len(call.Args) == 1 && isErrNeNil(s.Cond) {
						if f, elem, ok := subject(call.Args[0], m, loop); ok && !elem {
							setClass(f, "bech32")
						}
						continue
					}
					if call, ok := isPkgCall(as.Rhs[0], "hex", "DecodeString"); ok && len(call.Args) == 1 {
						f, elem, ok := subject(call.Args[0], m, loop)
						if !ok || elem {
							continue
						}
						if isErrNeNil(s.Cond) && guardNonEmptyOf == f {
							setClass(f, "hex")
						} else if b, ok := s.Cond.(*ast.BinaryExpr); ok && b.Op == token.LAND && isErrNeNil(b.Y) {
							if g, ok := b.X.(*ast.BinaryExpr); ok && g.Op == token.GTR && isZero(g.Y) {
								if lf, ok := lenOf(g.X, m); ok && lf == f {
									setClass(f, "hex")
								}
							}
						} else if isErrNeNil(s.Cond) {
							setClass(f, "hex")
						}
						continue
					}
					if call, ok := as.Rhs[0].(*ast.CallExpr); ok && len(call.Args) == 2 && isErrNeNil(s.Cond) {
						if id, ok := call.Fun.(*ast.Ident); ok && id.Name == "ValidateExternalAddr" {
							if cn, ok := selOn(call.Args[0], m); ok && cn == "ChainName" {
								if f, _, ok := subject(call.Args[1], m, loop); ok {
									setClass(f, "addr")
								}
							}
						}
					}
					continue
				}
				// no init
				switch cond := s.Cond.(type) {
				case *ast.BinaryExpr:
					if cond.Op == token.EQL && isZero(cond.Y) {
						if f, ok := lenOf(cond.X, m); ok {
							setClass(f, "nonempty")
						}
					}
					if cond.Op == token.LOR { // m.F.IsNil() || m.F.IsNegative()
						names := map[string]string{}
						for _, side := range []ast.Expr{cond.X, cond.Y} {
							if ce, ok := side.(*ast.CallExpr); ok && len(ce.Args) == 0 {
								if sel, ok := ce.Fun.(*ast.SelectorExpr); ok {
									if f, ok := selOn(sel.X, m); ok {
										names[sel.Sel.Name] = f
									}
								}
							}
						}
						if names["IsNil"] != "" && names["IsNil"] == names["IsNegative"] {
							setClass(names["IsNil"], "nonneg")
						}
					}
				}
			case *ast.RangeStmt:
				if f, ok := selOn(s.X, m); ok {
					if v, ok := s.Value.(*ast.Ident); ok {
						if err := stmts(s.Body.List, m, &loopT{v.Name, f}, ""); err != nil {
							return err
						}
					}
				}
			case *ast.ReturnStmt:
				if len(s.Results) == 1 {
					if ce, ok := s.Results[0].(*ast.CallExpr); ok && len(ce.Args) == 0 {
						if h, ok := selOn(ce.Fun, m); ok {
							if hd := tp.methods[c.Go][h]; hd != nil {
								if err := walk(hd); err != nil {
									return err
								}
							}
						}
					}
				}
			}
		}
		return nil
	}
	walk = func(fd *ast.FuncDecl) error {
		if seen[fd.Name.Name] {
			return nil
		}
		seen[fd.Name.Name] = true
		m := recvName(fd)
		if m == "" || fd.Body == nil {
			return fmt.Errorf("%s.%s: no receiver name/body", c.Go, fd.Name.Name)
		}
		return stmts(fd.Body.List, m, nil, "")
	}
	return walk(fd)
}

// extractReads collects the fields read by the execution path of a claim type:
// keeper functions with a parameter of type *types.<T>, single-type case clauses of type
// switches binding a variable, and the ExternalClaim getters called in attestation.go.
func extractReads(tp, kp *pkgInfo, c *Claim) error {
	reads := map[string]bool{}
	var fieldsOfMethod func(name string, depth int)
	// typedCallee: same-package functions/methods that take the claim by its concrete pointer type (scanned on their own)
	var typedCallee map[string]bool
	var isClaimPtr func(e ast.Expr) bool
	isLoggerCall := func(call *ast.CallExpr) bool {
		found := false
		ast.Inspect(call.Fun, func(n ast.Node) bool {
			if s, ok := n.(*ast.SelectorExpr); ok && s.Sel.Name == "Logger" {
				found = true
			}
			return true
		})
		return found
	}
	escape := func(why string) {
		// the whole object leaves the analysed code: every field counts as read
		for _, f := range c.Fields {
			reads[f.Name] = true
		}
		c.Escapes = append(c.Escapes, why)
	}
	collect := func(body ast.Node, id string, depth int) {
		var stack []ast.Node
		ast.Inspect(body, func(n ast.Node) bool {
			if n == nil {
				stack = stack[:len(stack)-1]
				return true
			}
			stack = append(stack, n)
			if s, ok := n.(*ast.SelectorExpr); ok {
				if x, ok := s.X.(*ast.Ident); ok && x.Name == id {
					if c.Field(s.Sel.Name) != nil {
						reads[s.Sel.Name] = true
					} else if depth < 4 {
						fieldsOfMethod(s.Sel.Name, depth+1)
					}
				}
				return true
			}
			idn, ok := n.(*ast.Ident)
			if !ok || idn.Name != id || len(stack) < 2 {
				return true
			}
			switch par := stack[len(stack)-2].(type) {
			case *ast.SelectorExpr:
				// handled above (X) or a field name that happens to equal the identifier (Sel)
			case *ast.CallExpr:
				isArg := false
				for _, a := range par.Args {
					if a == ast.Expr(idn) {
						isArg = true
					}
				}
				if !isArg || isLoggerCall(par) {
					break
				}
				name := ""
				switch f := par.Fun.(type) {
				case *ast.SelectorExpr:
					name = f.Sel.Name
				case *ast.Ident:
					name = f.Name
				}
				if !typedCallee[name] {
					escape(fmt.Sprintf("*%s passed whole to %s (not a function of the analysed packages taking the concrete type)", c.Go, name))
				}
			case *ast.BinaryExpr: // comparison with nil
			case *ast.KeyValueExpr, *ast.AssignStmt, *ast.ReturnStmt, *ast.CompositeLit, *ast.UnaryExpr, *ast.StarExpr:
				if as, ok := par.(*ast.AssignStmt); ok {
					onLhs := false
					for _, l := range as.Lhs {
						if l == ast.Expr(idn) {
							onLhs = true
						}
					}
					if onLhs {
						break
					}
				}
				escape(fmt.Sprintf("*%s used as a whole value (assigned / returned / stored)", c.Go))
			}
			return true
		})
	}
	fieldsOfMethod = func(name string, depth int) {
		switch name {
		case "ClaimHash", "ValidateBasic", "GetType", "String", "Reset", "ProtoMessage":
			return
		}
		if md := tp.methods[c.Go][name]; md != nil && md.Body != nil {
			if r := recvName(md); r != "" {
				collect(md.Body, r, depth)
			}
		}
	}
	isClaimPtr = func(e ast.Expr) bool {
		st, ok := e.(*ast.StarExpr)
		if !ok {
			return false
		}
		if s, ok := st.X.(*ast.SelectorExpr); ok {
			return s.Sel.Name == c.Go
		}
		return false
	}
	typedCallee = map[string]bool{}
	for _, fd := range kp.funcs {
		for _, p := range fd.Type.Params.List {
			if isClaimPtr(p.Type) {
				typedCallee[fd.Name.Name] = true
			}
		}
	}
	nfuncs := 0
	for _, fd := range kp.funcs {
		if fd.Body == nil {
			continue
		}
		// v := x.(*types.T)  /  v, ok := x.(*types.T)
		ast.Inspect(fd.Body, func(n ast.Node) bool {
			as, ok := n.(*ast.AssignStmt)
			if !ok || len(as.Rhs) != 1 || len(as.Lhs) == 0 {
				return true
			}
			if ta, ok := as.Rhs[0].(*ast.TypeAssertExpr); ok && ta.Type != nil && isClaimPtr(ta.Type) {
				if v, ok := as.Lhs[0].(*ast.Ident); ok && v.Name != "_" {
					collect(fd.Body, v.Name, 0)
				}
			}
			return true
		})
		for _, p := range fd.Type.Params.List {
			if isClaimPtr(p.Type) {
				for _, n := range p.Names {
					nfuncs++
					collect(fd.Body, n.Name, 0)
				}
			}
		}
		ast.Inspect(fd.Body, func(n ast.Node) bool {
			ts, ok := n.(*ast.TypeSwitchStmt)
			if !ok {
				return true
			}
			as, ok := ts.Assign.(*ast.AssignStmt)
			if !ok || len(as.Lhs) != 1 {
				return true
			}
			v, ok := as.Lhs[0].(*ast.Ident)
			if !ok {
				return true
			}
			for _, cc := range ts.Body.List {
				cl := cc.(*ast.CaseClause)
				if len(cl.List) == 1 && isClaimPtr(cl.List[0]) {
					nfuncs++
					for _, st := range cl.Body {
						collect(st, v.Name, 0)
					}
				}
			}
			return true
		})
	}
	if nfuncs == 0 {
		return fmt.Errorf("no keeper function or type-switch clause handles *types.%s (handler layout changed)", c.Go)
	}
	// generic getters used by Attest/TryAttestation on the ExternalClaim interface
	att := kp.files["attestation.go"]
	if att == nil {
		return fmt.Errorf("x/crosschain/keeper/attestation.go not found")
	}
	ngetters := 0
	for _, d := range att.Decls {
		fd, ok := d.(*ast.FuncDecl)
		if !ok || fd.Body == nil {
			continue
		}
		for _, p := range fd.Type.Params.List {
			if s, ok := p.Type.(*ast.SelectorExpr); ok && s.Sel.Name == "ExternalClaim" {
				for _, n := range p.Names {
					ast.Inspect(fd.Body, func(nd ast.Node) bool {
						if ce, ok := nd.(*ast.CallExpr); ok {
							if meth, ok := selOn(ce.Fun, n.Name); ok {
								ngetters++
								fieldsOfMethod(meth, 1)
							}
						}
						return true
					})
				}
			}
		}
	}
	if ngetters == 0 {
		return fmt.Errorf("attestation.go no longer calls ExternalClaim getters (layout changed)")
	}
	for f := range reads {
		c.Read = append(c.Read, f)
	}
	sort.Strings(c.Read)
	return nil
}

// ---------------------------------------------------------------------------------------
// Coq emission

func coqStr(s string) string { return "\"" + strings.ReplaceAll(s, "\"", "\"\"") + "\"" }

func coqBytes(s string) string {
	var parts []string
	for i := 0; i < len(s); i++ {
		parts = append(parts, strconv.Itoa(int(s[i])))
	}
	return "[" + strings.Join(parts, "; ") + "]"
}

func coqScls(cl string) string {
	switch cl {
	case "nonempty":
		return "CNonEmpty"
	case "hex":
		return "CHex"
	case "bech32":
		return "CBech32"
	case "addr":
		return "CAddr"
	}
	return "CFree"
}

func coqTy(f Field) string {
	switch f.Kind {
	case "u64":
		return "TU64"
	case "str":
		return "TStr " + coqScls(f.Class)
	case "int":
		if f.Class == "nonneg" {
			return "TInt INonNeg"
		}
		return "TInt IAny"
	case "bool":
		return "TBool"
	case "strlist":
		return "TStrList " + coqScls(f.Class)
	case "intlist":
		return "TIntList"
	case "members":
		return "TMembers " + coqScls(f.Class)
	}
	panic("kind " + f.Kind)
}

func coqTok(t Tok) string {
	switch t.Kind {
	case "lit":
		return fmt.Sprintf("Lit %s (* %q *)", coqBytes(t.Lit), t.Lit)
	case "u64":
		return "U64 " + coqStr(t.Field)
	case "str":
		return "Str " + coqStr(t.Field)
	case "int":
		return "IntDec " + coqStr(t.Field)
	case "bool":
		return "Bool " + coqStr(t.Field)
	case "strlist":
		return "StrList " + coqStr(t.Field)
	case "intlist":
		return "IntList " + coqStr(t.Field)
	case "members":
		return "Members " + coqStr(t.Field)
	case "hexstr":
		return "HexStr " + coqStr(t.Field)
	case "hexstrlist":
		return "HexStrList " + coqStr(t.Field)
	}
	panic("tok " + t.Kind)
}

func strList(ss []string) string {
	q := make([]string, len(ss))
	for i, s := range ss {
		q[i] = coqStr(s)
	}
	return "[" + strings.Join(q, "; ") + "]"
}

// Coq renders Gen_ClaimHash.v.
func (t *Table) Coq() string {
	var sb strings.Builder
	sb.WriteString("(* GENERATED by harness/gen_c03 from x/crosschain/types/{msgs.go,tx.pb.go,types.pb.go} and\n")
	sb.WriteString("   x/crosschain/keeper/*.go of the checked tree; do not edit.  One spec per ExternalClaim type:\n")
	sb.WriteString("   struct fields with the character class ValidateBasic guarantees, the ClaimHash Sprintf format as\n")
	sb.WriteString("   rendering tokens, the fields that are not execution-relevant, the fields the handlers read. *)\n")
	sb.WriteString("From Coq Require Import ZArith List String.\nFrom FxV Require Import model.M_ClaimHash.\nImport ListNotations.\nOpen Scope Z_scope.\nOpen Scope string_scope.\n\n")
	var names []string
	for _, c := range t.Claims {
		fmt.Fprintf(&sb, "(* %s.ClaimHash: fmt.Sprintf(%q, %s) *)\n", c.Go, c.Format, strings.Join(c.Args, ", "))
		fmt.Fprintf(&sb, "Definition Gen_%s : spec := {|\n  s_name := %s;\n  s_fields :=\n   [", c.Short, coqStr(c.Go))
		for i, f := range c.Fields {
			if i > 0 {
				sb.WriteString(";\n    ")
			}
			fmt.Fprintf(&sb, "(%s, %s)", coqStr(f.Name), coqTy(f))
		}
		sb.WriteString("];\n  s_fmt :=\n   [")
		for i, tk := range c.Toks {
			if i > 0 {
				sb.WriteString(";\n    ")
			}
			sb.WriteString(coqTok(tk))
		}
		fmt.Fprintf(&sb, "];\n  s_irrelevant := %s;\n  s_read := %s |}.\n\n", strList(Irrelevant), strList(c.Read))
		names = append(names, "Gen_"+c.Short)
	}
	fmt.Fprintf(&sb, "Definition Gen_all : list spec := [%s].\n", strings.Join(names, "; "))
	return sb.String()
}
