// gen_c03: translator for property C03 (T-gen).  Reads the checked tree ($VERIF_REPO, default /repo)
// and writes Gen_ClaimHash.v (the six ClaimHash formats, struct fields, validation classes and
// handler read-sets as Coq definitions) plus claimhash.json (the same table, for the evidence) into
// $VERIF_OUT.  Exits non-zero if ClaimHash / the claim structs no longer have the expected shape.
package main

import (
	"encoding/json"
	"fmt"
	"os"
	"path/filepath"

	"fxverif/gen_c03/extract"
)

func main() {
	repo := os.Getenv("VERIF_REPO")
	if repo == "" {
		repo = "/repo"
	}
	out := os.Getenv("VERIF_OUT")
	if out == "" {
		out = "."
	}
	tab, err := extract.Extract(repo)
	if err != nil {
		fmt.Fprintln(os.Stderr, "gen_c03: "+err.Error())
		if tab != nil {
			for _, c := range tab.Claims {
				if c.Err != "" {
					fmt.Fprintln(os.Stderr, "gen_c03: "+c.Err)
				}
			}
		}
		os.Exit(1)
	}
	if err := os.MkdirAll(out, 0o755); err != nil {
		panic(err)
	}
	if err := os.WriteFile(filepath.Join(out, "Gen_ClaimHash.v"), []byte(tab.Coq()), 0o644); err != nil {
		panic(err)
	}
	b, _ := json.MarshalIndent(tab, "", " ")
	_ = os.WriteFile(filepath.Join(out, "claimhash.json"), b, 0o644)
	for _, c := range tab.Claims {
		fmt.Printf("%-26s %q args=%v read=%v\n", c.Go, c.Format, c.Args, c.Read)
	}
}
