// gen_c06: translator for property C06. Reads, from the sources under $VERIF_REPO (default /repo),
//   - the comparison operators of cleanupTimedOutBatches / cleanupTimeOutBridgeCall (abci.go),
//     BuildOutgoingTxBatch (batch.go), BuildOutgoingBridgeCall (bridge_call_out.go),
//     CalExternalTimeoutHeight (timeout_height.go)                                   [go/ast]
//   - the two require(block.number < ...timeout...) checks of FxBridgeLogic.sol       [regex over the text]
//   - every non-test caller of the two clean-ups, every non-test call site of
//     SetLastObservedBlockHeight with its first argument, the order of the calls inside TryAttestation
//
// and writes coq/gen/Gen_TimeoutRules.v. Any shape it does not recognise is a hard error.
package main

import (
	"bytes"
	"fmt"
	"go/ast"
	"go/parser"
	"go/printer"
	"go/token"
	"os"
	"path/filepath"
	"regexp"
	"sort"
	"strings"
)

var fset = token.NewFileSet()

func die(format string, a ...interface{}) {
	fmt.Fprintf(os.Stderr, "gen_c06: "+format+"\n", a...)
	os.Exit(1)
}

func src(n ast.Node) string {
	var b bytes.Buffer
	_ = printer.Fprint(&b, fset, n)
	return b.String()
}

func parse(path string) *ast.File {
	f, err := parser.ParseFile(fset, path, nil, 0)
	if err != nil {
		die("cannot parse %s: %v", path, err)
	}
	return f
}

func findFunc(f *ast.File, name string) *ast.FuncDecl {
	for _, d := range f.Decls {
		if fd, ok := d.(*ast.FuncDecl); ok && fd.Name.Name == name {
			return fd
		}
	}
	return nil
}

var cmpName = map[token.Token]string{token.LSS: "CLt", token.LEQ: "CLe", token.GTR: "CGt", token.GEQ: "CGe", token.EQL: "CEq", token.NEQ: "CNe"}
var flip = map[token.Token]token.Token{token.LSS: token.GTR, token.LEQ: token.GEQ, token.GTR: token.LSS, token.GEQ: token.LEQ, token.EQL: token.EQL, token.NEQ: token.NEQ}

// cmpOf returns the operator of cond normalised as  <left> op <right>  where left mentions leftHint and right mentions rightHint
func cmpOf(cond ast.Expr, leftHint, rightHint, where string) string {
	be, ok := cond.(*ast.BinaryExpr)
	if !ok {
		die("%s: condition %q is not a single comparison", where, src(cond))
	}
	if _, ok := cmpName[be.Op]; !ok {
		die("%s: condition %q is not a comparison", where, src(cond))
	}
	x, y := src(be.X), src(be.Y)
	// both operands must be the bare field / variable: any arithmetic on either side is a shape this translator does not know
	isLeft := func(e string) bool {
		return strings.HasSuffix(e, "."+leftHint) && strings.Count(e, ".") == 1 && !strings.ContainsAny(e, " +-*/()")
	}
	switch {
	case isLeft(x) && y == rightHint:
		return cmpName[be.Op]
	case isLeft(y) && x == rightHint:
		return cmpName[flip[be.Op]]
	}
	die("%s: condition %q does not compare %s with %s", where, src(cond), leftHint, rightHint)
	return ""
}

func callsNamed(n ast.Node, name string) bool {
	found := false
	ast.Inspect(n, func(x ast.Node) bool {
		if c, ok := x.(*ast.CallExpr); ok {
			switch f := c.Fun.(type) {
			case *ast.SelectorExpr:
				if f.Sel.Name == name {
					found = true
				}
			case *ast.Ident:
				if f.Name == name {
					found = true
				}
			}
		}
		return true
	})
	return found
}

func lastReturnBool(body *ast.BlockStmt, where string) bool {
	if len(body.List) == 0 {
		die("%s: empty callback", where)
	}
	rs, ok := body.List[len(body.List)-1].(*ast.ReturnStmt)
	if !ok || len(rs.Results) != 1 {
		die("%s: callback does not end in a single-value return", where)
	}
	switch src(rs.Results[0]) {
	case "true":
		return true
	case "false":
		return false
	}
	die("%s: callback ends in return %s", where, src(rs.Results[0]))
	return false
}

func theFuncLit(fd *ast.FuncDecl, iter string, where string) *ast.FuncLit {
	var lit *ast.FuncLit
	ast.Inspect(fd.Body, func(x ast.Node) bool {
		if c, ok := x.(*ast.CallExpr); ok {
			if s, ok := c.Fun.(*ast.SelectorExpr); ok && s.Sel.Name == iter {
				for _, a := range c.Args {
					if l, ok := a.(*ast.FuncLit); ok {
						lit = l
					}
				}
			}
		}
		return true
	})
	if lit == nil {
		die("%s: no callback passed to %s", where, iter)
	}
	return lit
}

func requireExtHeightFromStore(fd *ast.FuncDecl, where string) {
	ok := false
	ast.Inspect(fd.Body, func(x ast.Node) bool {
		if a, isA := x.(*ast.AssignStmt); isA && len(a.Lhs) == 1 && src(a.Lhs[0]) == "externalBlockHeight" {
			if src(a.Rhs[0]) == "k.GetLastObservedBlockHeight(ctx).ExternalBlockHeight" {
				ok = true
			}
		}
		return true
	})
	if !ok {
		die("%s: externalBlockHeight is not k.GetLastObservedBlockHeight(ctx).ExternalBlockHeight", where)
	}
}

func main() {
	repo := os.Getenv("VERIF_REPO")
	if repo == "" {
		repo = "/repo"
	}
	out := os.Getenv("VERIF_OUT")
	if out == "" {
		out = "."
	}
	kdir := filepath.Join(repo, "x/crosschain/keeper")

	// ---- abci.go ----
	abci := parse(filepath.Join(kdir, "abci.go"))
	cb := findFunc(abci, "cleanupTimedOutBatches")
	if cb == nil {
		die("abci.go: cleanupTimedOutBatches not found")
	}
	requireExtHeightFromStore(cb, "cleanupTimedOutBatches")
	lit := theFuncLit(cb, "IterateOutgoingTxBatches", "cleanupTimedOutBatches")
	var batchCmp string
	for _, st := range lit.Body.List {
		if is, ok := st.(*ast.IfStmt); ok && callsNamed(is.Body, "CancelOutgoingTxBatch") {
			if is.Else != nil || is.Init != nil {
				die("cleanupTimedOutBatches: unexpected if shape")
			}
			batchCmp = cmpOf(is.Cond, "BatchTimeout", "externalBlockHeight", "cleanupTimedOutBatches")
		}
	}
	if batchCmp == "" {
		die("cleanupTimedOutBatches: no `if <timeout cmp height> { CancelOutgoingTxBatch }` in the callback")
	}
	if len(lit.Body.List) != 2 {
		die("cleanupTimedOutBatches: callback has %d statements, expected the if and a return", len(lit.Body.List))
	}
	batchContinues := !lastReturnBool(lit.Body, "cleanupTimedOutBatches")

	cc := findFunc(abci, "cleanupTimeOutBridgeCall")
	if cc == nil {
		die("abci.go: cleanupTimeOutBridgeCall not found")
	}
	requireExtHeightFromStore(cc, "cleanupTimeOutBridgeCall")
	lit = theFuncLit(cc, "IterateOutgoingBridgeCalls", "cleanupTimeOutBridgeCall")
	if len(lit.Body.List) != 4 {
		die("cleanupTimeOutBridgeCall: callback has %d statements, expected if / refund / delete / return", len(lit.Body.List))
	}
	is, ok := lit.Body.List[0].(*ast.IfStmt)
	if !ok || is.Else != nil || len(is.Body.List) != 1 || src(is.Body.List[0]) != "return true" {
		die("cleanupTimeOutBridgeCall: first statement is not `if cond { return true }`")
	}
	callStop := cmpOf(is.Cond, "Timeout", "externalBlockHeight", "cleanupTimeOutBridgeCall")
	if !callsNamed(lit.Body.List[1], "HandleOutgoingBridgeCallRefund") || !callsNamed(lit.Body.List[2], "DeleteOutgoingBridgeCallRecord") {
		die("cleanupTimeOutBridgeCall: refund / delete statements not found after the guard")
	}
	if lastReturnBool(lit.Body, "cleanupTimeOutBridgeCall") {
		die("cleanupTimeOutBridgeCall: callback stops after a refund (model iterates on)")
	}

	// ---- batch.go / bridge_call_out.go build guards ----
	guard := func(file, fn, varName, getter string) string {
		fd := findFunc(parse(filepath.Join(kdir, file)), fn)
		if fd == nil {
			die("%s: %s not found", file, fn)
		}
		assigned, res := false, ""
		for _, st := range fd.Body.List {
			if a, ok := st.(*ast.AssignStmt); ok && len(a.Lhs) == 1 && src(a.Lhs[0]) == varName {
				if src(a.Rhs[0]) != "k.CalExternalTimeoutHeight(ctx, "+getter+")" {
					die("%s: %s := %s", fn, varName, src(a.Rhs[0]))
				}
				assigned = true
			}
			if is, ok := st.(*ast.IfStmt); ok && assigned && res == "" {
				if be, ok := is.Cond.(*ast.BinaryExpr); ok && src(be.X) == varName {
					if src(be.Y) != "0" {
						die("%s: %s compared with %s", fn, varName, src(be.Y))
					}
					if _, ok := is.Body.List[len(is.Body.List)-1].(*ast.ReturnStmt); !ok {
						die("%s: guard does not return", fn)
					}
					res = cmpName[be.Op]
				}
			}
		}
		if res == "" {
			die("%s: no `if %s <cmp> 0 { return ... }` after the timeout computation", fn, varName)
		}
		return res
	}
	batchBuild := guard("batch.go", "BuildOutgoingTxBatch", "batchTimeout", "GetExternalBatchTimeout")
	callBuild := guard("bridge_call_out.go", "BuildOutgoingBridgeCall", "bridgeCallTimeout", "GetBridgeCallTimeout")

	// ---- timeout_height.go ----
	th := findFunc(parse(filepath.Join(kdir, "timeout_height.go")), "CalExternalTimeoutHeight")
	if th == nil {
		die("timeout_height.go: CalExternalTimeoutHeight not found")
	}
	calCmp, calRes := "", ""
	for _, st := range th.Body.List {
		if is, ok := st.(*ast.IfStmt); ok {
			if be, ok := is.Cond.(*ast.BinaryExpr); ok && src(be.X) == "heights.ExternalBlockHeight" && src(be.Y) == "0" {
				rs, ok := is.Body.List[0].(*ast.ReturnStmt)
				if !ok || len(rs.Results) != 1 {
					die("CalExternalTimeoutHeight: zero guard does not return a value")
				}
				calCmp, calRes = cmpName[be.Op], src(rs.Results[0])
			}
		}
	}
	if calCmp == "" || calRes != "0" {
		die("CalExternalTimeoutHeight: `if heights.ExternalBlockHeight == 0 { return 0 }` not found (cmp %q result %q)", calCmp, calRes)
	}

	// ---- Solidity ----
	solb, err := os.ReadFile(filepath.Join(repo, "solidity/contracts/bridge/FxBridgeLogic.sol"))
	if err != nil {
		die("cannot read FxBridgeLogic.sol: %v", err)
	}
	sol := string(solb)
	solCmp := map[string]string{"<": "CLt", "<=": "CLe", ">": "CGt", ">=": "CGe"}
	solFlip := map[string]string{"<": ">", "<=": ">=", ">": "<", ">=": "<="}
	solRule := func(fn, timeoutVar string) string {
		i := strings.Index(sol, "function "+fn+"(")
		if i < 0 {
			die("FxBridgeLogic.sol: function %s not found", fn)
		}
		body := sol[i:]
		if j := strings.Index(body[10:], "\n    function "); j > 0 {
			body = body[:10+j]
		}
		tv := regexp.QuoteMeta(timeoutVar)
		re1 := regexp.MustCompile(`require\(\s*block\.number\s*(<=|>=|<|>)\s*` + tv + `\s*,`)
		re2 := regexp.MustCompile(`require\(\s*` + tv + `\s*(<=|>=|<|>)\s*block\.number\s*,`)
		m1, m2 := re1.FindAllStringSubmatch(body, -1), re2.FindAllStringSubmatch(body, -1)
		if len(m1)+len(m2) != 1 {
			die("FxBridgeLogic.sol %s: expected exactly one require comparing block.number with %s, found %d", fn, timeoutVar, len(m1)+len(m2))
		}
		if len(m1) == 1 {
			return solCmp[m1[0][1]]
		}
		return solCmp[solFlip[m2[0][1]]]
	}
	solBatch := solRule("submitBatch", "_batchTimeout")
	solCall := solRule("verifySubmitBridgeCall", "_input.timeout")
	// the bridge-call check must sit on the path of submitBridgeCall
	if i := strings.Index(sol, "function submitBridgeCall("); i < 0 || !strings.Contains(sol[i:], "verifySubmitBridgeCall(") {
		die("FxBridgeLogic.sol: submitBridgeCall does not call verifySubmitBridgeCall")
	}

	// ---- call sites over the whole non-test Go tree ----
	callers := map[string]map[string]bool{"cleanupTimedOutBatches": {}, "cleanupTimeOutBridgeCall": {}}
	type site struct{ fn, arg string }
	var setSites []site
	var order []string
	_ = filepath.Walk(repo, func(p string, info os.FileInfo, err error) error {
		if err != nil {
			return nil
		}
		if info.IsDir() {
			b := filepath.Base(p)
			if b == ".git" || b == "node_modules" || b == "solidity" || b == "tests" || b == "testutil" || b == "docs" {
				return filepath.SkipDir
			}
			return nil
		}
		if !strings.HasSuffix(p, ".go") || strings.HasSuffix(p, "_test.go") || strings.HasSuffix(p, ".pb.go") || strings.HasSuffix(p, ".pb.gw.go") {
			return nil
		}
		data, _ := os.ReadFile(p)
		if !bytes.Contains(data, []byte("cleanupTime")) && !bytes.Contains(data, []byte("SetLastObservedBlockHeight")) {
			return nil
		}
		f := parse(p)
		for _, d := range f.Decls {
			fd, ok := d.(*ast.FuncDecl)
			if !ok || fd.Body == nil {
				continue
			}
			ast.Inspect(fd.Body, func(x ast.Node) bool {
				c, ok := x.(*ast.CallExpr)
				if !ok {
					return true
				}
				name := ""
				switch f := c.Fun.(type) {
				case *ast.SelectorExpr:
					name = f.Sel.Name
				case *ast.Ident:
					name = f.Name
				}
				if m, ok := callers[name]; ok {
					m[fd.Name.Name] = true
				}
				if name == "SetLastObservedBlockHeight" && len(c.Args) >= 2 {
					setSites = append(setSites, site{fd.Name.Name, src(c.Args[1])})
				}
				if fd.Name.Name == "TryAttestation" {
					switch name {
					case "SetLastObservedBlockHeight", "processAttestation", "cleanupTimedOutBatches", "cleanupTimeOutBridgeCall":
						order = append(order, name)
					}
				}
				return true
			})
		}
		return nil
	})
	list := func(m map[string]bool) string {
		var s []string
		for k := range m {
			s = append(s, fmt.Sprintf("%q", k))
		}
		sort.Strings(s)
		return "[" + strings.Join(s, "; ") + "]"
	}
	sort.Slice(setSites, func(i, j int) bool { return setSites[i].fn+setSites[i].arg < setSites[j].fn+setSites[j].arg })
	var ss []string
	for _, s := range setSites {
		ss = append(ss, fmt.Sprintf("(%q, %q)", s.fn, s.arg))
	}
	var os2 []string
	for _, o := range order {
		os2 = append(os2, fmt.Sprintf("%q", o))
	}
	if len(callers["cleanupTimedOutBatches"]) == 0 || len(callers["cleanupTimeOutBridgeCall"]) == 0 {
		die("a clean-up has no caller at all")
	}

	var b strings.Builder
	w := func(format string, a ...interface{}) { fmt.Fprintf(&b, format, a...) }
	w("(* Gen_TimeoutRules.v — GENERATED by harness/gen_c06 from the sources under $VERIF_REPO; do not edit.\n")
	w("   Comparison operators of the time-out rules on both sides of the bridge, and the call sites\n")
	w("   of the clean-ups / of the writer of the observed external height. *)\n")
	w("From Coq Require Import ZArith List String Bool.\nImport ListNotations.\nOpen Scope string_scope.\nOpen Scope Z_scope.\n\n")
	w("Inductive cmp := CLt | CLe | CGt | CGe | CEq | CNe.\n")
	w("Definition cmp_eval (c : cmp) (a b : Z) : bool :=\n  match c with\n  | CLt => a <? b | CLe => a <=? b | CGt => a >? b | CGe => a >=? b\n  | CEq => a =? b | CNe => negb (a =? b)\n  end.\n\n")
	w("(* x/crosschain/keeper/abci.go cleanupTimedOutBatches:\n   if batch.BatchTimeout <cmp> externalBlockHeight { CancelOutgoingTxBatch } ; the callback's final return decides whether iteration goes on *)\n")
	w("Definition batch_cleanup_cmp : cmp := %s.\n", batchCmp)
	w("Definition batch_cleanup_cancel (timeout ext : Z) : bool := cmp_eval batch_cleanup_cmp timeout ext.\n")
	w("Definition batch_cleanup_continues : bool := %v.\n\n", batchContinues)
	w("(* x/crosschain/keeper/abci.go cleanupTimeOutBridgeCall:\n   if data.Timeout <cmp> externalBlockHeight { return true } ; otherwise refund + delete, return false *)\n")
	w("Definition call_cleanup_stop_cmp : cmp := %s.\n", callStop)
	w("Definition call_cleanup_stop (timeout ext : Z) : bool := cmp_eval call_cleanup_stop_cmp timeout ext.\n\n")
	w("(* x/crosschain/keeper/batch.go BuildOutgoingTxBatch: if batchTimeout <cmp> 0 { return error } *)\n")
	w("Definition batch_build_reject_cmp : cmp := %s.\n", batchBuild)
	w("Definition batch_build_reject (timeout : Z) : bool := cmp_eval batch_build_reject_cmp timeout 0.\n\n")
	w("(* x/crosschain/keeper/bridge_call_out.go BuildOutgoingBridgeCall: if bridgeCallTimeout <cmp> 0 { return error } *)\n")
	w("Definition call_build_reject_cmp : cmp := %s.\n", callBuild)
	w("Definition call_build_reject (timeout : Z) : bool := cmp_eval call_build_reject_cmp timeout 0.\n\n")
	w("(* x/crosschain/keeper/timeout_height.go CalExternalTimeoutHeight:\n   if heights.ExternalBlockHeight <cmp> 0 { return 0 } *)\n")
	w("Definition cal_zero_cmp : cmp := %s.\n", calCmp)
	w("Definition cal_zero_guard (ext : Z) : bool := cmp_eval cal_zero_cmp ext 0.\n")
	w("Definition cal_zero_result : Z := %s.\n\n", calRes)
	w("(* solidity/contracts/bridge/FxBridgeLogic.sol submitBatch: require(block.number <cmp> _batchTimeout) *)\n")
	w("Definition contract_batch_cmp : cmp := %s.\n", solBatch)
	w("Definition contract_batch_ok (blk timeout : Z) : bool := cmp_eval contract_batch_cmp blk timeout.\n\n")
	w("(* solidity/contracts/bridge/FxBridgeLogic.sol verifySubmitBridgeCall (called by submitBridgeCall): require(block.number <cmp> _input.timeout) *)\n")
	w("Definition contract_call_cmp : cmp := %s.\n", solCall)
	w("Definition contract_call_ok (blk timeout : Z) : bool := cmp_eval contract_call_cmp blk timeout.\n\n")
	w("(* non-test Go functions that call the clean-ups *)\n")
	w("Definition cleanup_batches_callers : list string := %s.\n", list(callers["cleanupTimedOutBatches"]))
	w("Definition cleanup_calls_callers : list string := %s.\n\n", list(callers["cleanupTimeOutBridgeCall"]))
	w("(* non-test call sites of SetLastObservedBlockHeight: (enclosing function, external-height argument) *)\n")
	w("Definition set_observed_sites : list (string * string) :=\n  [%s].\n\n", strings.Join(ss, "; "))
	w("(* the calls inside TryAttestation, in source order *)\n")
	w("Definition try_attestation_order : list string :=\n  [%s].\n", strings.Join(os2, "; "))
	if err := os.WriteFile(filepath.Join(out, "Gen_TimeoutRules.v"), []byte(b.String()), 0o644); err != nil {
		die("write: %v", err)
	}
}
