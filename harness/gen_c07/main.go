// gen_c07: translator for property C07.  Reads /repo/x/crosschain/keeper/*.go (current tree) and writes
// coq/gen/Gen_EndBlock.v:
//   - what expression each of the three slashing loops hands to SlashOracle (arg_kind),
//   - the order of phases in Keeper.EndBlocker,
//   - every panic( / Must*( site in keeper functions reachable (by method name) from EndBlocker.
//
// Fails loudly when the shape it expects is gone.
package main

import (
	"bytes"
	"fmt"
	"go/ast"
	"go/parser"
	"go/printer"
	"go/token"
	"os"
	"path/filepath"
	"regexp"
	"sort"
	"strings"
)

func die(format string, a ...interface{}) {
	fmt.Fprintf(os.Stderr, "gen_c07: "+format+"\n", a...)
	os.Exit(1)
}

func main() {
	repo := os.Getenv("VERIF_REPO")
	if repo == "" {
		repo = "/repo"
	}
	out := os.Getenv("VERIF_OUT")
	if out == "" {
		out = "."
	}
	dir := filepath.Join(repo, "x/crosschain/keeper")
	fset := token.NewFileSet()
	pkgs, err := parser.ParseDir(fset, dir, func(fi os.FileInfo) bool { return !strings.HasSuffix(fi.Name(), "_test.go") }, 0)
	if err != nil {
		die("parse %s: %v", dir, err)
	}
	funcs := map[string]*ast.FuncDecl{}
	for _, p := range pkgs {
		for _, f := range p.Files {
			for _, d := range f.Decls {
				if fd, ok := d.(*ast.FuncDecl); ok && fd.Body != nil {
					// keeper methods only (receiver Keeper / MsgServer embed) and package functions
					funcs[fd.Name.Name] = fd
				}
			}
		}
	}

	// 1. SlashOracle argument kinds
	kind := func(fn string) string {
		fd, ok := funcs[fn]
		if !ok {
			die("function %s not found", fn)
		}
		var kinds []string
		ast.Inspect(fd.Body, func(n ast.Node) bool {
			call, ok := n.(*ast.CallExpr)
			if !ok {
				return true
			}
			sel, ok := call.Fun.(*ast.SelectorExpr)
			if !ok || sel.Sel.Name != "SlashOracle" || len(call.Args) != 2 {
				return true
			}
			switch a := call.Args[1].(type) {
			case *ast.SelectorExpr:
				if a.Sel.Name == "OracleAddress" {
					kinds = append(kinds, "ArgOracleAddress")
				} else {
					kinds = append(kinds, "ArgOther")
				}
			case *ast.CallExpr:
				if s, ok := a.Fun.(*ast.SelectorExpr); ok && s.Sel.Name == "String" && len(a.Args) == 0 {
					// x.String(): proto text of the record unless x is itself an address value
					if inner, ok := s.X.(*ast.CallExpr); ok {
						if is, ok := inner.Fun.(*ast.SelectorExpr); ok && is.Sel.Name == "GetOracle" {
							kinds = append(kinds, "ArgOracleAddress") // oracles[i].GetOracle().String(): AccAddress -> bech32
							return true
						}
					}
					kinds = append(kinds, "ArgProtoString")
				} else {
					kinds = append(kinds, "ArgOther")
				}
			default:
				kinds = append(kinds, "ArgOther")
			}
			return true
		})
		if len(kinds) != 1 {
			die("%s: expected exactly one SlashOracle call, found %d", fn, len(kinds))
		}
		return kinds[0]
	}
	kOS, kB, kBC := kind("oracleSetSlashing"), kind("batchSlashing"), kind("bridgeCallSlashing")

	// 2. phases of EndBlocker and of slashing
	calls := func(fn string) []string {
		fd, ok := funcs[fn]
		if !ok {
			die("function %s not found", fn)
		}
		var cs []string
		ast.Inspect(fd.Body, func(n ast.Node) bool {
			if call, ok := n.(*ast.CallExpr); ok {
				if sel, ok := call.Fun.(*ast.SelectorExpr); ok {
					if id, ok := sel.X.(*ast.Ident); ok && (id.Name == "k" || id.Name == "s") {
						cs = append(cs, sel.Sel.Name)
					}
				}
			}
			return true
		})
		return cs
	}
	phases := calls("EndBlocker")
	slashPhases := calls("slashing")

	// 3. panic sites reachable from EndBlocker (by method name, within the keeper package)
	seen := map[string]bool{}
	var order []string
	var walk func(fn string)
	walk = func(fn string) {
		if seen[fn] {
			return
		}
		if _, ok := funcs[fn]; !ok {
			return
		}
		seen[fn] = true
		order = append(order, fn)
		for _, c := range calls(fn) {
			walk(c)
		}
	}
	walk("EndBlocker")
	sort.Strings(order)
	type site struct{ fn, what string }
	var sites []site

	// 3b. the same for hand-written methods and functions of x/crosschain/types that the reachable keeper functions call
	//     (by name; generated *.pb.go files excluded): receiver-qualified, one package deep, transitively inside types
	tdir := filepath.Join(repo, "x/crosschain/types")
	tpkgs, terr := parser.ParseDir(fset, tdir, func(fi os.FileInfo) bool {
		return !strings.HasSuffix(fi.Name(), "_test.go") && !strings.HasSuffix(fi.Name(), ".pb.go") && !strings.HasSuffix(fi.Name(), ".pb.gw.go")
	}, 0)
	if terr != nil {
		die("parse %s: %v", tdir, terr)
	}
	tfuncs := map[string][]*ast.FuncDecl{} // by bare name
	tlabel := func(fd *ast.FuncDecl) string {
		if fd.Recv != nil && len(fd.Recv.List) == 1 {
			return "types." + strings.TrimPrefix(src(fset, fd.Recv.List[0].Type), "*") + "." + fd.Name.Name
		}
		return "types." + fd.Name.Name
	}
	for _, p := range tpkgs {
		for _, f := range p.Files {
			for _, d := range f.Decls {
				if fd, ok := d.(*ast.FuncDecl); ok && fd.Body != nil {
					tfuncs[fd.Name.Name] = append(tfuncs[fd.Name.Name], fd)
				}
			}
		}
	}
	generic := map[string]bool{"String": true, "Len": true, "Less": true, "Swap": true, "Error": true, "Equal": false}
	tseen := map[string]bool{}
	var torder []string
	tbody := map[string]*ast.FuncDecl{}
	var twalk func(body *ast.BlockStmt, fromTypes bool)
	twalk = func(body *ast.BlockStmt, fromTypes bool) {
		ast.Inspect(body, func(n ast.Node) bool {
			call, ok := n.(*ast.CallExpr)
			if !ok {
				return true
			}
			name := ""
			switch f := call.Fun.(type) {
			case *ast.SelectorExpr:
				if id, ok := f.X.(*ast.Ident); ok && (id.Name == "k" || id.Name == "s") && !fromTypes {
					return true // keeper method, handled above
				}
				name = f.Sel.Name
			case *ast.Ident:
				if fromTypes {
					name = f.Name
				}
			}
			if name == "" || generic[name] {
				return true
			}
			for _, fd := range tfuncs[name] {
				l := tlabel(fd)
				if !tseen[l] {
					tseen[l] = true
					torder = append(torder, l)
					tbody[l] = fd
					twalk(fd.Body, true)
				}
			}
			return true
		})
	}
	for _, fn := range order {
		twalk(funcs[fn].Body, false)
	}
	sort.Strings(torder)
	var tsites []site
	for _, l := range torder {
		ast.Inspect(tbody[l].Body, func(n ast.Node) bool {
			call, ok := n.(*ast.CallExpr)
			if !ok {
				return true
			}
			switch f := call.Fun.(type) {
			case *ast.Ident:
				if f.Name == "panic" {
					tsites = append(tsites, site{l, "panic"})
				}
			case *ast.SelectorExpr:
				if strings.HasPrefix(f.Sel.Name, "Must") && f.Sel.Name != "MustMarshal" && f.Sel.Name != "MustUnmarshal" {
					tsites = append(tsites, site{l, f.Sel.Name})
				}
			}
			return true
		})
	}
	for _, fn := range order {
		ast.Inspect(funcs[fn].Body, func(n ast.Node) bool {
			call, ok := n.(*ast.CallExpr)
			if !ok {
				return true
			}
			switch f := call.Fun.(type) {
			case *ast.Ident:
				if f.Name == "panic" {
					sites = append(sites, site{fn, "panic"})
				}
			case *ast.SelectorExpr:
				if strings.HasPrefix(f.Sel.Name, "Must") && f.Sel.Name != "MustMarshal" && f.Sel.Name != "MustUnmarshal" {
					sites = append(sites, site{fn, f.Sel.Name})
				}
			}
			return true
		})
	}

	// 4. the rendering of the power difference that isNeedOracleSetRequest parses back as a LegacyDec
	precision := "None"
	if fd, ok := funcs["isNeedOracleSetRequest"]; ok {
		ast.Inspect(fd.Body, func(n ast.Node) bool {
			call, ok := n.(*ast.CallExpr)
			if !ok {
				return true
			}
			if sel, ok := call.Fun.(*ast.SelectorExpr); ok && sel.Sel.Name == "Sprintf" && len(call.Args) >= 1 {
				if lit, ok := call.Args[0].(*ast.BasicLit); ok {
					if m := regexp.MustCompile(`^"%\.(\d+)f"$`).FindStringSubmatch(lit.Value); m != nil {
						precision = "Some " + m[1]
					}
				}
			}
			return true
		})
	} else {
		die("isNeedOracleSetRequest not found")
	}

	// 6. who writes the stored oracle sets / the latest nonce (whole repository, non-test files): the history theorem
	//    (run_blocks_never_panics) lets everything else vary freely between two end blockers but not these
	var writers []string
	{
		targets := map[string]bool{"StoreOracleSet": true, "DeleteOracleSet": true, "SetLatestOracleSetNonce": true, "AddOracleSetRequest": true}
		for _, root := range []string{"x", "app"} {
			_ = filepath.Walk(filepath.Join(repo, root), func(path string, fi os.FileInfo, err error) error {
				if err != nil || fi.IsDir() || !strings.HasSuffix(path, ".go") || strings.HasSuffix(path, "_test.go") {
					return nil
				}
				f, perr := parser.ParseFile(fset, path, nil, 0)
				if perr != nil {
					die("parse %s: %v", path, perr)
				}
				rel, _ := filepath.Rel(repo, filepath.Dir(path))
				for _, d := range f.Decls {
					fd, ok := d.(*ast.FuncDecl)
					if !ok || fd.Body == nil {
						continue
					}
					ast.Inspect(fd.Body, func(n ast.Node) bool {
						if call, ok := n.(*ast.CallExpr); ok {
							if sel, ok := call.Fun.(*ast.SelectorExpr); ok && targets[sel.Sel.Name] {
								writers = append(writers, fmt.Sprintf("(\"%s\", \"%s:%s\")", sel.Sel.Name, rel, fd.Name.Name))
							}
						}
						return true
					})
				}
				return nil
			})
		}
		sort.Strings(writers)
	}

	// 7. the conditions and derived values of the oracle-set phases, as source text in source order
	var conds []string
	for _, fn := range []string{"createOracleSetRequest", "isNeedOracleSetRequest", "AddOracleSetRequest", "pruneOracleSet"} {
		fd, ok := funcs[fn]
		if !ok {
			die("function %s not found", fn)
		}
		ast.Inspect(fd.Body, func(n ast.Node) bool {
			switch st := n.(type) {
			case *ast.IfStmt:
				c := src(fset, st.Cond)
				if st.Init != nil {
					c = src(fset, st.Init) + "; " + c
				}
				conds = append(conds, fmt.Sprintf("(\"%s\", \"if %s\")", fn, strings.ReplaceAll(c, "\"", "'")))
			case *ast.AssignStmt:
				if len(st.Lhs) == 1 {
					if id, ok := st.Lhs[0].(*ast.Ident); ok && (id.Name == "tooEarly" || id.Name == "earliestToPrune" || id.Name == "oracleSetUpdatePowerChangePercent") {
						conds = append(conds, fmt.Sprintf("(\"%s\", \"%s\")", fn, strings.ReplaceAll(src(fset, st), "\"", "'")))
					}
				}
			}
			return true
		})
	}
	// PowerDiff's final expression
	{
		tf, perr := parser.ParseFile(fset, filepath.Join(repo, "x/crosschain/types/types.go"), nil, 0)
		if perr != nil {
			die("parse types.go: %v", perr)
		}
		for _, d := range tf.Decls {
			if fd, ok := d.(*ast.FuncDecl); ok && fd.Name.Name == "PowerDiff" && fd.Body != nil {
				ast.Inspect(fd.Body, func(n ast.Node) bool {
					if r, ok := n.(*ast.ReturnStmt); ok && len(r.Results) == 1 {
						conds = append(conds, fmt.Sprintf("(\"PowerDiff\", \"return %s\")", src(fset, r.Results[0])))
					}
					return true
				})
			}
		}
	}

	// 8. gov EndBlocker: every call whose error is returned (an error returned by an end blocker halts the chain)
	govHalts := govHalting(filepath.Join(repo, "x/gov/abci.go"))
	govRecovers := govRecoverDirect(filepath.Join(repo, "x/gov/abci.go"))
	// 9. fx-core's only BeginBlock code (x/evm/keeper/abci.go): which calls it makes
	var evmBegin []string
	{
		bf, perr := parser.ParseFile(fset, filepath.Join(repo, "x/evm/keeper/abci.go"), nil, 0)
		if perr != nil {
			die("parse x/evm/keeper/abci.go: %v", perr)
		}
		for _, d := range bf.Decls {
			fd, ok := d.(*ast.FuncDecl)
			if !ok || fd.Body == nil {
				continue
			}
			ast.Inspect(fd.Body, func(n ast.Node) bool {
				if c, ok := n.(*ast.CallExpr); ok {
					evmBegin = append(evmBegin, fd.Name.Name+":"+src(fset, c.Fun))
				}
				return true
			})
		}
	}

	// 5. the tail of gov Tally: divisions and early-return guards in source order
	tallySteps, loopDivs := tallyTail(filepath.Join(repo, "x/gov/keeper/tally.go"))

	var sb strings.Builder
	sb.WriteString("(* generated by harness/gen_c07 from x/crosschain/keeper/*.go and x/gov/keeper/tally.go — do not edit *)\n")
	sb.WriteString("From Coq Require Import ZArith List String.\nFrom FxV Require Import model.M_EndBlock model.M_Tally.\nImport ListNotations.\nOpen Scope string_scope.\n\n")
	sb.WriteString("Definition gen_powerdiff_precision : option Z := " + strings.Replace(precision, "Some ", "Some ", 1) + "%Z.\n")
	sb.WriteString("Definition gen_tally_steps : list step := [" + strings.Join(tallySteps, "; ") + "].\n")
	{
		var qs []string
		for _, x := range loopDivs {
			qs = append(qs, "\""+x+"\"")
		}
		sb.WriteString("Definition gen_tally_loop_divisors : list string := [" + strings.Join(qs, "; ") + "].\n\n")
	}
	sb.WriteString(fmt.Sprintf("Definition gen_slash_args : slash_args :=\n  {| sa_oracle_set := %s; sa_batch := %s; sa_bridge_call := %s |}.\n\n", kOS, kB, kBC))
	q := func(xs []string) string {
		var qs []string
		for _, x := range xs {
			qs = append(qs, "\""+x+"\"")
		}
		return "[" + strings.Join(qs, "; ") + "]"
	}
	sb.WriteString("Definition gen_endblock_phases : list string := " + q(phases) + ".\n")
	sb.WriteString("Definition gen_slashing_calls : list string := " + q(slashPhases) + ".\n")
	sb.WriteString("Definition gen_reachable : list string := " + q(order) + ".\n")
	var ss []string
	for _, s := range sites {
		ss = append(ss, fmt.Sprintf("(\"%s\", \"%s\")", s.fn, s.what))
	}
	sb.WriteString("Definition gen_panic_sites : list (string * string) :=\n  [" + strings.Join(ss, ";\n   ") + "].\n")
	{
		var ts []string
		for _, x := range tsites {
			ts = append(ts, fmt.Sprintf("(\"%s\", \"%s\")", x.fn, x.what))
		}
		sb.WriteString("Definition gen_reachable_types : list string := " + q(torder) + ".\n")
		sb.WriteString("Definition gen_types_panic_sites : list (string * string) :=\n  [" + strings.Join(ts, ";\n   ") + "].\n")
	}
	sb.WriteString("Definition gen_oset_writers : list (string * string) :=\n  [" + strings.Join(writers, ";\n   ") + "].\n")
	sb.WriteString("Definition gen_gov_halting_calls : list (string * string) :=\n  [" + strings.Join(govHalts, ";\n   ") + "].\n")
	sb.WriteString("Definition gen_evm_abci_calls : list string := " + q(evmBegin) + ".\n")
	sb.WriteString(fmt.Sprintf("Definition gen_gov_safe_execute_recovers : bool := %v.\n", govRecovers))
	sb.WriteString("Definition gen_oset_conditions : list (string * string) :=\n  [" + strings.Join(conds, ";\n   ") + "].\n")
	if err := os.WriteFile(filepath.Join(out, "Gen_EndBlock.v"), []byte(sb.String()), 0o644); err != nil {
		die("%v", err)
	}
}

func src(fset *token.FileSet, n ast.Node) string {
	var b bytes.Buffer
	_ = printer.Fprint(&b, fset, n)
	return strings.Join(strings.Fields(b.String()), "")
}

// tallyTail returns the step list of Tally after `tallyResults = v1.NewTallyResultFromMap(results)` and
// the divisor expressions of the vote-summing loops before it.
func tallyTail(file string) (steps []string, loopDivs []string) {
	fset := token.NewFileSet()
	f, err := parser.ParseFile(fset, file, nil, 0)
	if err != nil {
		die("parse %s: %v", file, err)
	}
	var tally *ast.FuncDecl
	for _, d := range f.Decls {
		if fd, ok := d.(*ast.FuncDecl); ok && fd.Name.Name == "Tally" {
			tally = fd
		}
	}
	if tally == nil {
		die("Tally not found in %s", file)
	}
	divs := func(n ast.Node) []string {
		var out []string
		ast.Inspect(n, func(x ast.Node) bool {
			if call, ok := x.(*ast.CallExpr); ok {
				if sel, ok := call.Fun.(*ast.SelectorExpr); ok && (sel.Sel.Name == "Quo" || sel.Sel.Name == "QuoInt" || sel.Sel.Name == "QuoTruncate" || sel.Sel.Name == "QuoRaw" || sel.Sel.Name == "QuoInt64") && len(call.Args) == 1 {
					out = append(out, src(fset, call.Args[0]))
				}
			}
			return true
		})
		return out
	}
	divStep := func(d string) string {
		switch d {
		case "math.LegacyNewDecFromInt(totalBonded)":
			return "SDiv DBonded"
		case "totalVotingPower":
			return "SDiv DTotal"
		case "totalVotingPower.Sub(results[v1.OptionAbstain])":
			return "SDiv DNonAbstain"
		}
		return "SDiv DOther"
	}
	endsWithReturn := func(b *ast.BlockStmt) bool {
		if len(b.List) == 0 {
			return false
		}
		_, ok := b.List[len(b.List)-1].(*ast.ReturnStmt)
		return ok
	}
	start := -1
	for i, st := range tally.Body.List {
		if as, ok := st.(*ast.AssignStmt); ok && strings.Contains(src(fset, as), "tallyResults=v1.NewTallyResultFromMap(results)") {
			start = i
		}
	}
	if start < 0 {
		die("Tally: marker statement `tallyResults = v1.NewTallyResultFromMap(results)` not found")
	}
	for _, st := range tally.Body.List[:start] {
		loopDivs = append(loopDivs, divs(st)...)
	}
	for _, st := range tally.Body.List[start+1:] {
		switch s := st.(type) {
		case *ast.IfStmt:
			cond := src(fset, s.Cond)
			if s.Init != nil {
				for _, d := range divs(s.Init) {
					steps = append(steps, divStep(d))
				}
			}
			for _, d := range divs(s.Cond) {
				steps = append(steps, divStep(d))
			}
			if cond == "err!=nil" {
				continue
			}
			if endsWithReturn(s.Body) && s.Else == nil {
				switch cond {
				case "totalBonded.IsZero()":
					steps = append(steps, "SGuard GBondedZero")
				case "percentVoting.LT(quorum)":
					steps = append(steps, "SGuard GQuorum")
				case "totalVotingPower.Sub(results[v1.OptionAbstain]).Equal(math.LegacyZeroDec())":
					steps = append(steps, "SGuard GAllAbstain")
				default:
					steps = append(steps, "SGuard GOther")
				}
				for _, d := range divs(s.Body) {
					steps = append(steps, divStep(d))
				}
			} else {
				for _, d := range divs(s.Body) {
					steps = append(steps, divStep(d))
				}
				if s.Else != nil {
					for _, d := range divs(s.Else) {
						steps = append(steps, divStep(d))
					}
				}
			}
		default:
			for _, d := range divs(st) {
				steps = append(steps, divStep(d))
			}
		}
	}
	return steps, loopDivs
}

// govHalting lists, for EndBlocker (its two queue-walk closures separately) and failUnsupportedProposal in x/gov/abci.go,
// the calls whose error result is handed back to the caller: `x, err := f(...)` / `err = f(...)` / `if err := f(...); …`
// followed by an `if err != nil { … return …, err }` before any other test of err.
func govHalting(file string) []string {
	fset := token.NewFileSet()
	f, err := parser.ParseFile(fset, file, nil, 0)
	if err != nil {
		die("parse %s: %v", file, err)
	}
	var out []string
	callName := func(e ast.Expr) string {
		c, ok := e.(*ast.CallExpr)
		if !ok {
			return ""
		}
		return src(fset, c.Fun)
	}
	returnsErr := func(b *ast.BlockStmt) bool {
		for _, st := range b.List {
			if r, ok := st.(*ast.ReturnStmt); ok && len(r.Results) > 0 {
				if id, ok := r.Results[len(r.Results)-1].(*ast.Ident); ok && id.Name == "err" {
					return true
				}
			}
		}
		return false
	}
	isErrTest := func(e ast.Expr) (bool, bool) { // (is a test of err against nil, is `!=`)
		b, ok := e.(*ast.BinaryExpr)
		if !ok {
			return false, false
		}
		x, ok1 := b.X.(*ast.Ident)
		y, ok2 := b.Y.(*ast.Ident)
		if ok1 && ok2 && x.Name == "err" && y.Name == "nil" {
			return true, b.Op == token.NEQ
		}
		return false, false
	}
	var scope func(label string, body *ast.BlockStmt)
	scope = func(label string, body *ast.BlockStmt) {
		var pending []string
		done := map[*ast.AssignStmt]bool{}
		assign := func(st *ast.AssignStmt) {
			if done[st] {
				return
			}
			done[st] = true
			hasErr := false
			for _, l := range st.Lhs {
				if id, ok := l.(*ast.Ident); ok && id.Name == "err" {
					hasErr = true
				}
			}
			if hasErr && len(st.Rhs) == 1 {
				if n := callName(st.Rhs[0]); n != "" {
					pending = append(pending, n)
				}
			}
		}
		ast.Inspect(body, func(n ast.Node) bool {
			switch st := n.(type) {
			case *ast.FuncLit:
				return false // own scope, handled where the enclosing call is seen
			case *ast.CallExpr:
				for _, a := range st.Args {
					if fl, ok := a.(*ast.FuncLit); ok {
						scope(label+":"+src(fset, st.Fun), fl.Body)
					}
				}
			case *ast.AssignStmt:
				assign(st)
			case *ast.IfStmt:
				if as, ok := st.Init.(*ast.AssignStmt); ok {
					assign(as)
				}
				if is, neq := isErrTest(st.Cond); is {
					if neq && returnsErr(st.Body) {
						for _, c := range pending {
							out = append(out, fmt.Sprintf("(\"%s\", \"%s\")", label, c))
						}
					}
					pending = nil
				}
			}
			return true
		})
	}
	for _, d := range f.Decls {
		if fd, ok := d.(*ast.FuncDecl); ok && fd.Body != nil && (fd.Name.Name == "EndBlocker" || fd.Name.Name == "failUnsupportedProposal") {
			scope(fd.Name.Name, fd.Body)
		}
	}
	if len(out) == 0 {
		die("no error-returning call found in %s", file)
	}
	return out
}

// govRecoverDirect: safeExecuteHandler defers a function LITERAL that calls the builtin recover() in its own body (recover
// stops a panic only when called directly by the deferred function, not one frame deeper) and the handler call comes
// after the defer statement.
func govRecoverDirect(file string) bool {
	fset := token.NewFileSet()
	f, err := parser.ParseFile(fset, file, nil, 0)
	if err != nil {
		die("parse %s: %v", file, err)
	}
	for _, d := range f.Decls {
		fd, ok := d.(*ast.FuncDecl)
		if !ok || fd.Name.Name != "safeExecuteHandler" || fd.Body == nil {
			continue
		}
		deferred := false
		for _, st := range fd.Body.List {
			if ds, ok := st.(*ast.DeferStmt); ok {
				if fl, ok := ds.Call.Fun.(*ast.FuncLit); ok {
					direct := false
					ast.Inspect(fl.Body, func(n ast.Node) bool {
						if _, nested := n.(*ast.FuncLit); nested {
							return false
						}
						if c, ok := n.(*ast.CallExpr); ok {
							if id, ok := c.Fun.(*ast.Ident); ok && id.Name == "recover" && len(c.Args) == 0 {
								direct = true
							}
						}
						return true
					})
					if direct {
						deferred = true
					}
				}
				continue
			}
			// a call of the handler before the recovering defer is not protected
			calls := false
			ast.Inspect(st, func(n ast.Node) bool {
				if c, ok := n.(*ast.CallExpr); ok {
					if id, ok := c.Fun.(*ast.Ident); ok && id.Name == "handler" {
						calls = true
					}
				}
				return true
			})
			if calls {
				return deferred
			}
		}
		return false
	}
	return false
}
