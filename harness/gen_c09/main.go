// gen_c09: translator for properties C09/C10. Reads the CURRENT sources under $VERIF_REPO
//   x/staking/precompile/*.go, x/crosschain/precompile/*.go   (method tables, IsReadonly, RequiredGas, Run bodies,
//                                                             the guard sequence of Contract.Run)
// and the two dependencies the argument rests on, in the module cache at the versions $VERIF_REPO/go.mod selects
//   ethermint x/evm/statedb/{native.go,journal.go,statedb.go}  (digest)
//   go-ethereum core/vm/{evm.go,contracts.go}                  (digest + the four RunPrecompiledContract call sites)
// and writes coq/gen/Gen_Precompiles.v. It fails (exit 1) when a shape it relies on is not found.
package main

import (
	"crypto/sha256"
	"encoding/json"
	"fmt"
	"go/ast"
	"go/parser"
	"go/token"
	"os"
	"path/filepath"
	"regexp"
	"sort"
	"strconv"
	"strings"

	"golang.org/x/crypto/sha3"
)

func die(format string, a ...interface{}) {
	fmt.Fprintf(os.Stderr, "gen_c09: "+format+"\n", a...)
	os.Exit(1)
}

type pkg struct {
	name  string // "staking" | "crosschain"
	dir   string
	fset  *token.FileSet
	files []*ast.File
	funcs map[string][]*ast.FuncDecl // by name (methods of any receiver and functions)
}

func loadPkg(name, dir string) *pkg {
	p := &pkg{name: name, dir: dir, fset: token.NewFileSet(), funcs: map[string][]*ast.FuncDecl{}}
	ents, err := os.ReadDir(dir)
	if err != nil {
		die("read %s: %v", dir, err)
	}
	for _, e := range ents {
		if e.IsDir() || !strings.HasSuffix(e.Name(), ".go") || strings.HasSuffix(e.Name(), "_test.go") {
			continue
		}
		f, err := parser.ParseFile(p.fset, filepath.Join(dir, e.Name()), nil, 0)
		if err != nil {
			die("parse %s: %v", e.Name(), err)
		}
		p.files = append(p.files, f)
		for _, d := range f.Decls {
			if fd, ok := d.(*ast.FuncDecl); ok {
				p.funcs[fd.Name.Name] = append(p.funcs[fd.Name.Name], fd)
			}
		}
	}
	return p
}

func recvType(fd *ast.FuncDecl) string {
	if fd.Recv == nil || len(fd.Recv.List) == 0 {
		return ""
	}
	t := fd.Recv.List[0].Type
	if s, ok := t.(*ast.StarExpr); ok {
		t = s.X
	}
	if id, ok := t.(*ast.Ident); ok {
		return id.Name
	}
	return ""
}

func (p *pkg) method(typ, name string) *ast.FuncDecl {
	for _, fd := range p.funcs[name] {
		if recvType(fd) == typ {
			return fd
		}
	}
	return nil
}

func (p *pkg) fn(name string) *ast.FuncDecl {
	for _, fd := range p.funcs[name] {
		if fd.Recv == nil {
			return fd
		}
	}
	return nil
}

// ---- method table ----

type step string

type method struct {
	selector    string // 4-byte method id, hex
	contract    string
	goType      string
	abiName     string
	readonly    bool
	gas         uint64
	usesAction  int      // number of ExecuteNativeAction calls in Run
	outerCtx    bool     // Run touches a context (x.Context(), identifier bound to it) outside the closure
	steps       []string // what the closure (or, without closure, Run) does with native state / the EVM, in source order
	callerIDs   []string // identities used: "caller" (contract.Caller()), "origin" (evm.Origin)
	originSinks []string // functions that receive evm.Origin as an argument
	valueUse    bool     // reads contract.Value()
	defers      bool     // Run (or a closure in it) contains a defer statement or calls recover()
}

func constructorOf(p *pkg, e ast.Expr, locals map[string]ast.Expr) string {
	switch x := e.(type) {
	case *ast.CallExpr:
		if id, ok := x.Fun.(*ast.Ident); ok {
			return id.Name
		}
	case *ast.Ident:
		if v, ok := locals[x.Name]; ok {
			return constructorOf(p, v, locals)
		}
	}
	die("%s: method table element of unexpected shape", p.name)
	return ""
}

func (p *pkg) methodTable() []*method {
	ctor := p.fn("NewPrecompiledContract")
	if ctor == nil {
		die("%s: NewPrecompiledContract not found", p.name)
	}
	locals := map[string]ast.Expr{}
	var elts []ast.Expr
	ast.Inspect(ctor.Body, func(n ast.Node) bool {
		switch x := n.(type) {
		case *ast.AssignStmt:
			if len(x.Lhs) == 1 && len(x.Rhs) == 1 {
				if id, ok := x.Lhs[0].(*ast.Ident); ok {
					locals[id.Name] = x.Rhs[0]
				}
			}
		case *ast.KeyValueExpr:
			if id, ok := x.Key.(*ast.Ident); ok && id.Name == "methods" {
				if cl, ok := x.Value.(*ast.CompositeLit); ok {
					elts = cl.Elts
				}
			}
		}
		return true
	})
	if len(elts) == 0 {
		die("%s: methods: []contract.PrecompileMethod{...} not found", p.name)
	}
	var out []*method
	for _, e := range elts {
		cname := constructorOf(p, e, locals)
		cfd := p.fn(cname)
		if cfd == nil {
			die("%s: constructor %s not found", p.name, cname)
		}
		m := &method{contract: p.name}
		// return type *T
		if cfd.Type.Results == nil || len(cfd.Type.Results.List) != 1 {
			die("%s: %s has unexpected results", p.name, cname)
		}
		rt := cfd.Type.Results.List[0].Type
		if s, ok := rt.(*ast.StarExpr); ok {
			rt = s.X
		}
		m.goType = rt.(*ast.Ident).Name
		// ABI method name: GetABI().Methods["name"]
		ast.Inspect(cfd.Body, func(n ast.Node) bool {
			if ix, ok := n.(*ast.IndexExpr); ok {
				if sel, ok := ix.X.(*ast.SelectorExpr); ok && sel.Sel.Name == "Methods" {
					if bl, ok := ix.Index.(*ast.BasicLit); ok {
						m.abiName, _ = strconv.Unquote(bl.Value)
					}
				}
			}
			return true
		})
		if m.abiName == "" {
			die("%s: %s: ABI method name not found", p.name, cname)
		}
		// IsReadonly: single return of a boolean literal
		ro := p.method(m.goType, "IsReadonly")
		if ro == nil || len(ro.Body.List) != 1 {
			die("%s: %s.IsReadonly has unexpected shape", p.name, m.goType)
		}
		ret, ok := ro.Body.List[0].(*ast.ReturnStmt)
		if !ok || len(ret.Results) != 1 {
			die("%s: %s.IsReadonly has unexpected shape", p.name, m.goType)
		}
		id, ok := ret.Results[0].(*ast.Ident)
		if !ok || (id.Name != "true" && id.Name != "false") {
			die("%s: %s.IsReadonly does not return a literal", p.name, m.goType)
		}
		m.readonly = id.Name == "true"
		// RequiredGas: single return of an integer literal
		rg := p.method(m.goType, "RequiredGas")
		if rg == nil || len(rg.Body.List) != 1 {
			die("%s: %s.RequiredGas has unexpected shape", p.name, m.goType)
		}
		ret, ok = rg.Body.List[0].(*ast.ReturnStmt)
		if !ok || len(ret.Results) != 1 {
			die("%s: %s.RequiredGas has unexpected shape", p.name, m.goType)
		}
		bl, ok := ret.Results[0].(*ast.BasicLit)
		if !ok {
			die("%s: %s.RequiredGas does not return a literal", p.name, m.goType)
		}
		g, err := strconv.ParseUint(strings.ReplaceAll(bl.Value, "_", ""), 10, 64)
		if err != nil {
			die("%s: %s.RequiredGas literal: %v", p.name, m.goType, err)
		}
		m.gas = g
		run := p.method(m.goType, "Run")
		if run == nil {
			die("%s: %s.Run not found", p.name, m.goType)
		}
		p.analyseRun(m, run)
		out = append(out, m)
	}
	return out
}

// ---- ABI selectors (contract/I*.go: MetaData{ABI: "..."}) ----

type abiArg struct {
	Type       string   `json:"type"`
	Components []abiArg `json:"components"`
}

func (a abiArg) canon() string {
	if strings.HasPrefix(a.Type, "tuple") {
		parts := make([]string, len(a.Components))
		for i, c := range a.Components {
			parts[i] = c.canon()
		}
		return "(" + strings.Join(parts, ",") + ")" + strings.TrimPrefix(a.Type, "tuple")
	}
	return a.Type
}

func selectors(goFile string) map[string]string {
	fset := token.NewFileSet()
	f, err := parser.ParseFile(fset, goFile, nil, 0)
	if err != nil {
		die("parse %s: %v", goFile, err)
	}
	var abiJSON string
	ast.Inspect(f, func(n ast.Node) bool {
		if kv, ok := n.(*ast.KeyValueExpr); ok {
			if id, ok := kv.Key.(*ast.Ident); ok && id.Name == "ABI" {
				if bl, ok := kv.Value.(*ast.BasicLit); ok && abiJSON == "" {
					abiJSON, _ = strconv.Unquote(bl.Value)
				}
			}
		}
		return true
	})
	if abiJSON == "" {
		die("%s: ABI literal not found", goFile)
	}
	var entries []struct {
		Type   string   `json:"type"`
		Name   string   `json:"name"`
		Inputs []abiArg `json:"inputs"`
	}
	if err := json.Unmarshal([]byte(abiJSON), &entries); err != nil {
		die("%s: ABI json: %v", goFile, err)
	}
	out := map[string]string{}
	for _, e := range entries {
		if e.Type != "function" {
			continue
		}
		parts := make([]string, len(e.Inputs))
		for i, a := range e.Inputs {
			parts[i] = a.canon()
		}
		h := sha3.NewLegacyKeccak256()
		h.Write([]byte(e.Name + "(" + strings.Join(parts, ",") + ")"))
		out[e.Name] = fmt.Sprintf("%x", h.Sum(nil)[:4])
	}
	return out
}

// ---- Run bodies ----

var readPrefixes = []string{"Get", "Has", "Is", "Iterate", "Calculate", "ToTargetDenom", "ModuleAddress", "Validator", "Logger", "EventManager", "BlockTime", "BlockHeight"}

func isReadName(n string) bool {
	for _, p := range readPrefixes {
		if strings.HasPrefix(n, p) {
			return true
		}
	}
	return false
}

func calleeName(c *ast.CallExpr) (recv string, name string) {
	switch f := c.Fun.(type) {
	case *ast.Ident:
		return "", f.Name
	case *ast.SelectorExpr:
		return exprString(f.X), f.Sel.Name
	}
	return "", ""
}

func exprString(e ast.Expr) string {
	switch x := e.(type) {
	case *ast.Ident:
		return x.Name
	case *ast.SelectorExpr:
		return exprString(x.X) + "." + x.Sel.Name
	case *ast.CallExpr:
		return exprString(x.Fun) + "()"
	case *ast.TypeAssertExpr:
		return exprString(x.X)
	case *ast.StarExpr:
		return exprString(x.X)
	}
	return "?"
}

func mentions(e ast.Node, names map[string]bool) bool {
	found := false
	ast.Inspect(e, func(n ast.Node) bool {
		if id, ok := n.(*ast.Ident); ok && names[id.Name] {
			found = true
		}
		return !found
	})
	return found
}

type walker struct {
	p     *pkg
	m     *method
	depth int
}

// events of a block of code, branch-aware: an if/else (or switch) becomes SAlt [then] [else], a loop body is
// emitted twice. ctxNames / evmNames / scratch: identifiers denoting the live native context, the EVM, and a
// scratch (CacheContext) branch of the context.
type env struct {
	ctx, evm, scratch, erc20 map[string]bool
}

func (e env) clone() env {
	c := env{ctx: map[string]bool{}, evm: map[string]bool{}, scratch: map[string]bool{}, erc20: map[string]bool{}}
	for k := range e.ctx {
		c.ctx[k] = true
	}
	for k := range e.evm {
		c.evm[k] = true
	}
	for k := range e.scratch {
		c.scratch[k] = true
	}
	for k := range e.erc20 {
		c.erc20[k] = true
	}
	return c
}

func (w *walker) events(body ast.Node, ctxNames, evmNames map[string]bool) []string {
	e := env{ctx: ctxNames, evm: evmNames, scratch: map[string]bool{}, erc20: map[string]bool{}}
	switch b := body.(type) {
	case *ast.BlockStmt:
		return w.block(b.List, e)
	case ast.Stmt:
		return w.block([]ast.Stmt{b}, e)
	}
	die("events: unexpected node")
	return nil
}

func alt(a, b []string) string {
	return "SAlt [" + strings.Join(a, "; ") + "] [" + strings.Join(b, "; ") + "]"
}

func (w *walker) block(list []ast.Stmt, e env) []string {
	var out []string
	for _, st := range list {
		out = append(out, w.stmt(st, e)...)
	}
	return out
}

func (w *walker) stmt(st ast.Stmt, e env) []string {
	switch x := st.(type) {
	case nil:
		return nil
	case *ast.BlockStmt:
		return w.block(x.List, e)
	case *ast.IfStmt:
		var out []string
		out = append(out, w.stmt(x.Init, e)...)
		out = append(out, w.expr(x.Cond, e)...)
		th := w.block(x.Body.List, e)
		var el []string
		if x.Else != nil {
			el = w.stmt(x.Else, e)
		}
		if len(th) > 0 || len(el) > 0 {
			out = append(out, alt(th, el))
		}
		return out
	case *ast.ForStmt:
		var out []string
		out = append(out, w.stmt(x.Init, e)...)
		body := w.block(x.Body.List, e)
		if len(body) > 0 {
			out = append(out, alt(append(append([]string{}, body...), body...), nil))
		}
		return out
	case *ast.RangeStmt:
		out := w.expr(x.X, e)
		body := w.block(x.Body.List, e)
		if len(body) > 0 {
			out = append(out, alt(append(append([]string{}, body...), body...), nil))
		}
		return out
	case *ast.SwitchStmt:
		var out []string
		out = append(out, w.stmt(x.Init, e)...)
		if x.Tag != nil {
			out = append(out, w.expr(x.Tag, e)...)
		}
		var alts [][]string
		for _, c := range x.Body.List {
			cc := c.(*ast.CaseClause)
			alts = append(alts, w.block(cc.Body, e))
		}
		cur := []string(nil)
		any := false
		for i := len(alts) - 1; i >= 0; i-- {
			if len(alts[i]) > 0 {
				any = true
			}
			cur = []string{alt(alts[i], cur)}
		}
		if any {
			out = append(out, cur...)
		}
		return out
	case *ast.AssignStmt:
		for i, r := range x.Rhs {
			if c, ok := r.(*ast.CallExpr); ok {
				_, name := calleeName(c)
				if i < len(x.Lhs) {
					if id, ok := x.Lhs[i].(*ast.Ident); ok {
						switch name {
						case "NewERC20Call":
							e.erc20[id.Name] = true
						case "CacheContext":
							e.scratch[id.Name] = true
						case "Context":
							e.ctx[id.Name] = true
						}
					}
				}
			}
		}
		var out []string
		for _, r := range x.Rhs {
			out = append(out, w.expr(r, e)...)
		}
		return out
	default:
		var out []string
		ast.Inspect(st, func(n ast.Node) bool {
			if ex, ok := n.(ast.Expr); ok {
				out = append(out, w.expr(ex, e)...)
				return false
			}
			return true
		})
		return out
	}
}

// expr: the calls inside one expression, arguments before the call itself
func (w *walker) expr(ex ast.Expr, e env) []string {
	if ex == nil {
		return nil
	}
	var out []string
	w.depth++
	defer func() { w.depth-- }()
	if w.depth > 40 {
		die("%s.%s: recursion too deep", w.p.name, w.m.goType)
	}
	ast.Inspect(ex, func(n ast.Node) bool {
		switch x := n.(type) {
		case *ast.FuncLit:
			out = append(out, w.block(x.Body.List, e)...)
			return false
		case *ast.CallExpr:
			for _, a := range x.Args {
				out = append(out, w.expr(a, e)...)
			}
			if se, ok := x.Fun.(*ast.SelectorExpr); ok {
				out = append(out, w.expr(se.X, e)...)
			}
			out = append(out, w.call(x, e)...)
			return false
		}
		return true
	})
	return out
}

func (w *walker) call(x *ast.CallExpr, e env) []string {
	recv, name := calleeName(x)
	usesCtx, usesEvm, usesScratch := false, false, false
	for _, a := range x.Args {
		if id, ok := a.(*ast.Ident); ok {
			if e.ctx[id.Name] {
				usesCtx = true
			}
			if e.evm[id.Name] {
				usesEvm = true
			}
			if e.scratch[id.Name] {
				usesScratch = true
			}
		}
		if ac, ok := a.(*ast.CallExpr); ok {
			if _, an := calleeName(ac); an == "Context" {
				usesCtx = true // x.Context() passed directly
			}
		}
	}
	root := strings.Split(recv, ".")[0]
	switch {
	case name == "NewERC20Call" || name == "Context" || name == "CacheContext":
		return nil
	case e.erc20[recv]:
		if name == "TotalSupply" || name == "BalanceOf" || strings.HasPrefix(name, "Pack") || strings.HasPrefix(name, "Unpack") {
			return []string{"SEvmStatic"}
		}
		return []string{"SEvmCall"}
	case recv != "" && e.evm[recv] && (name == "Call" || name == "StaticCall" || name == "DelegateCall" || name == "CallCode" || name == "Create" || name == "Create2"):
		return []string{"SEvmCall"}
	case name == "EmitEvent" && usesEvm:
		return []string{"SLog"}
	case recv != "" && (e.ctx[root] || e.scratch[root]):
		// method of the context itself: EventManager().EmitEvent, BlockTime, WithX ...: no store access
		return nil
	case usesScratch && !usesCtx:
		return []string{"SScratch"}
	case usesCtx:
		if helper := w.helper(recv, name); helper != nil {
			he := env{ctx: map[string]bool{}, evm: map[string]bool{}, scratch: map[string]bool{}, erc20: map[string]bool{}}
			for i, a := range x.Args {
				pn := paramName(helper, i)
				if id, ok := a.(*ast.Ident); ok {
					if e.ctx[id.Name] {
						he.ctx[pn] = true
					}
					if e.evm[id.Name] {
						he.evm[pn] = true
					}
				}
				if ac, ok := a.(*ast.CallExpr); ok {
					if _, an := calleeName(ac); an == "Context" {
						he.ctx[pn] = true
					}
				}
			}
			return w.block(helper.Body.List, he)
		}
		if isReadName(name) {
			return []string{"SRead"}
		}
		if name == "EvmToBaseCoin" || name == "BaseCoinToEvm" || name == "ExecuteClaim" || name == "ConvertDenomToTarget" {
			// keeper paths that may run the EVM through a NESTED state DB (keeper.CallEVM): from this
			// journal's point of view these are plain native-store writes
			return []string{"SNestedDB"}
		}
		return []string{"SWrite"}
	}
	return nil
}

func firstKey(m map[string]bool) string {
	var ks []string
	for k := range m {
		ks = append(ks, k)
	}
	sort.Strings(ks)
	if len(ks) == 0 {
		return "\x00"
	}
	return ks[0]
}

func paramName(fd *ast.FuncDecl, i int) string {
	n := 0
	for _, f := range fd.Type.Params.List {
		for _, nm := range f.Names {
			if n == i {
				return nm.Name
			}
			n++
		}
	}
	return "\x00"
}

// helper: a function or method of the same package (receiver ignored) that is not an interface call
func (w *walker) helper(recv, name string) *ast.FuncDecl {
	fds := w.p.funcs[name]
	if len(fds) != 1 {
		return nil
	}
	// calls through keeper fields (m.stakingKeeper.X, route.X, k.X on an interface) are not package helpers
	base := recv
	if i := strings.LastIndex(recv, "."); i >= 0 {
		base = recv[i+1:]
	}
	if strings.HasSuffix(strings.ToLower(base), "keeper") || strings.HasSuffix(strings.ToLower(base), "server") || base == "route" || base == "router" || base == "k" {
		if base != "k" {
			return nil
		}
	}
	return fds[0]
}

// hasDeferOrRecover: a panic raised below this code could be intercepted here
func hasDeferOrRecover(n ast.Node) bool {
	found := false
	ast.Inspect(n, func(x ast.Node) bool {
		switch y := x.(type) {
		case *ast.DeferStmt:
			found = true
		case *ast.CallExpr:
			if id, ok := y.Fun.(*ast.Ident); ok && id.Name == "recover" {
				found = true
			}
		}
		return !found
	})
	return found
}

func (p *pkg) analyseRun(m *method, run *ast.FuncDecl) {
	m.defers = hasDeferOrRecover(run.Body)
	w := &walker{p: p, m: m}
	evmName, contractName := paramName(run, 0), paramName(run, 1)
	evmNames := map[string]bool{evmName: true}
	// the closure passed to ExecuteNativeAction
	var closures []*ast.FuncLit
	ast.Inspect(run.Body, func(n ast.Node) bool {
		if c, ok := n.(*ast.CallExpr); ok {
			if _, name := calleeName(c); name == "ExecuteNativeAction" {
				m.usesAction++
				if len(c.Args) != 3 {
					die("%s.%s: ExecuteNativeAction with %d args", p.name, m.goType, len(c.Args))
				}
				fl, ok := c.Args[2].(*ast.FuncLit)
				if !ok {
					die("%s.%s: ExecuteNativeAction's action is not a function literal", p.name, m.goType)
				}
				closures = append(closures, fl)
			}
		}
		return true
	})
	// outside the closures: is a context obtained or used?
	outerCtxNames := map[string]bool{}
	ast.Inspect(run.Body, func(n ast.Node) bool {
		for _, fl := range closures {
			if n == fl {
				return false
			}
		}
		switch x := n.(type) {
		case *ast.AssignStmt:
			for i, r := range x.Rhs {
				if c, ok := r.(*ast.CallExpr); ok {
					if _, name := calleeName(c); name == "Context" && i < len(x.Lhs) {
						if id, ok := x.Lhs[i].(*ast.Ident); ok {
							outerCtxNames[id.Name] = true
						}
					}
				}
			}
		case *ast.CallExpr:
			if _, name := calleeName(x); name == "Context" {
				m.outerCtx = true
			}
		}
		return true
	})
	if len(closures) > 0 {
		if len(closures) != 1 {
			die("%s.%s: %d ExecuteNativeAction closures", p.name, m.goType, len(closures))
		}
		fl := closures[0]
		if len(fl.Type.Params.List) != 1 || len(fl.Type.Params.List[0].Names) != 1 {
			die("%s.%s: closure has unexpected parameters", p.name, m.goType)
		}
		cn := fl.Type.Params.List[0].Names[0].Name
		m.steps = w.events(fl.Body, map[string]bool{cn: true}, evmNames)
	} else {
		// no native action: whatever Run does with the live context, in order
		m.steps = w.events(run.Body, map[string]bool{}, evmNames)
	}
	// identities
	seen := map[string]bool{}
	ast.Inspect(run.Body, func(n ast.Node) bool {
		switch x := n.(type) {
		case *ast.CallExpr:
			s := exprString(x.Fun)
			if s == contractName+".Caller" {
				seen["caller"] = true
			}
			if s == contractName+".Value" {
				m.valueUse = true
			}
			for _, a := range x.Args {
				as := exprString(a)
				if as == evmName+".Origin" || as == evmName+".TxContext.Origin" {
					seen["origin"] = true
					_, nm := calleeName(x)
					m.originSinks = append(m.originSinks, nm)
				}
			}
		case *ast.SelectorExpr:
			s := exprString(x)
			if s == contractName+".CallerAddress" {
				seen["caller"] = true
			}
		}
		return true
	})
	// evm.Origin used anywhere but as a direct call argument?
	originTotal := 0
	ast.Inspect(run.Body, func(n ast.Node) bool {
		if s, ok := n.(*ast.SelectorExpr); ok {
			es := exprString(s)
			if es == evmName+".Origin" || es == evmName+".TxContext.Origin" {
				originTotal++
			}
		}
		return true
	})
	if originTotal != len(m.originSinks) {
		seen["origin"] = true
		m.originSinks = append(m.originSinks, "<expression>")
	}
	// the helpers of the package that Run reaches (two levels of calls): any use of the transaction origin there
	// is an identity the method acts on as well
	visited := map[string]bool{}
	frontier := []ast.Node{run.Body}
	for depth := 0; depth < 3; depth++ {
		var next []ast.Node
		for _, body := range frontier {
			ast.Inspect(body, func(n ast.Node) bool {
				c, ok := n.(*ast.CallExpr)
				if !ok {
					return true
				}
				_, name := calleeName(c)
				fds := p.funcs[name]
				if len(fds) != 1 || visited[name] || fds[0] == run || name == "Run" {
					return true
				}
				visited[name] = true
				h := fds[0]
				if h.Body == nil {
					return true
				}
				next = append(next, h.Body)
				ast.Inspect(h.Body, func(x ast.Node) bool {
					switch y := x.(type) {
					case *ast.SelectorExpr:
						if y.Sel.Name == "Origin" {
							seen["origin"] = true
							m.originSinks = append(m.originSinks, "<helper "+name+">")
						}
						if y.Sel.Name == "CallerAddress" {
							seen["caller"] = true
						}
					case *ast.CallExpr:
						if se, ok := y.Fun.(*ast.SelectorExpr); ok && se.Sel.Name == "Caller" && len(y.Args) == 0 {
							seen["caller"] = true
						}
					}
					return true
				})
				return true
			})
		}
		frontier = next
	}
	for k := range seen {
		m.callerIDs = append(m.callerIDs, k)
	}
	sort.Strings(m.callerIDs)
}

// ---- Contract.Run guard sequence ----

type runShape struct {
	recovers   bool     // Contract.Run contains a defer statement or calls recover()
	flat       bool     // readonly guard, switch check and dispatch are consecutive direct statements of the lookup branch, unconditionally
	guards     []string // in source order
	disabledID string   // expression passed as the method id to CheckDisabledPrecompiles
	errPacked  bool     // every error leaves through PackRetErr*/PackRetError
}

func (p *pkg) contractRun() runShape {
	run := p.method("Contract", "Run")
	if run == nil {
		die("%s: Contract.Run not found", p.name)
	}
	var rs runShape
	rs.errPacked = true
	rs.recovers = hasDeferOrRecover(run.Body)
	roName := paramName(run, 2)
	// the lookup branch: for ... { if bytes.Equal(...) { <readonly guard>; stateDB := ...; <switch check>; ret, err = method.Run; ... } }
	ast.Inspect(run.Body, func(n ast.Node) bool {
		ifs, ok := n.(*ast.IfStmt)
		if !ok || !strings.Contains(src(p, ifs.Cond), "bytes.Equal(") {
			return true
		}
		var seq []string
		for _, st := range ifs.Body.List {
			switch x := st.(type) {
			case *ast.IfStmt:
				cs := src(p, x.Cond)
				switch {
				case x.Init == nil && strings.Contains(cs, "IsReadonly()"):
					seq = append(seq, "ro")
				case x.Init != nil && strings.Contains(src(p, x.Init), "CheckDisabledPrecompiles(") && strings.ReplaceAll(cs, " ", "") == "err!=nil":
					seq = append(seq, "sw")
				case strings.ReplaceAll(cs, " ", "") == "err!=nil":
					seq = append(seq, "errchk")
				default:
					seq = append(seq, "if?")
				}
			case *ast.AssignStmt:
				if strings.Contains(src(p, x), "method.Run(") {
					seq = append(seq, "run")
				} else {
					seq = append(seq, "assign")
				}
			case *ast.ReturnStmt:
				seq = append(seq, "ret")
			default:
				seq = append(seq, "?")
			}
		}
		rs.flat = strings.Join(seq, ",") == "ro,assign,sw,run,errchk,ret"
		return false
	})
	ast.Inspect(run.Body, func(n ast.Node) bool {
		switch x := n.(type) {
		case *ast.IfStmt:
			cs := src(p, x.Cond)
			switch {
			case strings.Contains(cs, "len(") && strings.Contains(cs, "<= 4"):
				rs.guards = append(rs.guards, "GInputLen")
			case strings.Contains(cs, "bytes.Equal(") && strings.Contains(cs, "GetMethodId()"):
				rs.guards = append(rs.guards, "GLookup")
			case strings.Contains(cs, roName) && strings.Contains(cs, "!") && strings.Contains(cs, "IsReadonly()"):
				if strings.ReplaceAll(cs, " ", "") != roName+"&&!method.IsReadonly()" {
					die("%s: Contract.Run readonly guard has unexpected condition %q", p.name, cs)
				}
				rs.guards = append(rs.guards, "GReadonly")
			}
			if x.Init != nil {
				is := src(p, x.Init)
				if strings.Contains(is, "CheckDisabledPrecompiles(") {
					rs.guards = append(rs.guards, "GDisabled")
					re := regexp.MustCompile(`CheckDisabledPrecompiles\(([^,]+),\s*([^,]+),\s*(.+)\)$`)
					mm := re.FindStringSubmatch(strings.TrimSpace(is[strings.Index(is, "CheckDisabledPrecompiles("):]))
					if mm == nil {
						die("%s: CheckDisabledPrecompiles call of unexpected shape: %s", p.name, is)
					}
					if strings.TrimSpace(mm[2]) != "c.Address()" {
						die("%s: CheckDisabledPrecompiles is not given c.Address()", p.name)
					}
					rs.disabledID = strings.TrimSpace(mm[3])
				}
			}
		case *ast.AssignStmt:
			if strings.Contains(src(p, x), "method.Run(") {
				rs.guards = append(rs.guards, "GDispatch")
			}
		case *ast.ReturnStmt:
			s := src(p, x)
			if strings.Contains(s, "PackRetErr") {
				return true
			}
			if s == "return ret, nil" {
				return true
			}
			rs.errPacked = false
		}
		return true
	})
	return rs
}

func src(p *pkg, n ast.Node) string {
	start, end := p.fset.Position(n.Pos()), p.fset.Position(n.End())
	b, err := os.ReadFile(start.Filename)
	if err != nil {
		die("%v", err)
	}
	return string(b[start.Offset:end.Offset])
}

// ---- argument validation: sign comparisons in the Validate() methods of the argument structs ----

// signChecks lists, in source order, every comparison `args.<Field>.Sign() <op> <int literal>` found in a method
// named Validate of file goFile: (receiver type, field, operator, literal)
func signChecks(goFile string) [][4]string {
	fset := token.NewFileSet()
	f, err := parser.ParseFile(fset, goFile, nil, 0)
	if err != nil {
		die("parse %s: %v", goFile, err)
	}
	var out [][4]string
	for _, d := range f.Decls {
		fd, ok := d.(*ast.FuncDecl)
		if !ok || fd.Name.Name != "Validate" || fd.Recv == nil {
			continue
		}
		rt := recvType(fd)
		ast.Inspect(fd.Body, func(n ast.Node) bool {
			be, ok := n.(*ast.BinaryExpr)
			if !ok {
				return true
			}
			call, ok := be.X.(*ast.CallExpr)
			if !ok {
				return true
			}
			sel, ok := call.Fun.(*ast.SelectorExpr)
			if !ok || sel.Sel.Name != "Sign" {
				return true
			}
			field := exprString(sel.X)
			if i := strings.Index(field, "."); i >= 0 {
				field = field[i+1:]
			}
			lit, ok := be.Y.(*ast.BasicLit)
			if !ok {
				die("%s: %s.Validate compares Sign() with a non-literal", goFile, rt)
			}
			out = append(out, [4]string{rt, field, be.Op.String(), lit.Value})
			return true
		})
	}
	return out
}

// ---- dependencies ----

func modVersion(gomod, path string) (repl string, ver string) {
	// replace directives first
	re := regexp.MustCompile(`(?m)^\s*` + regexp.QuoteMeta(path) + `\s+=>\s+(\S+)\s+(\S+)\s*$`)
	if m := re.FindStringSubmatch(gomod); m != nil {
		return m[1], m[2]
	}
	re = regexp.MustCompile(`(?m)^\s*` + regexp.QuoteMeta(path) + `\s+(v\S+)`)
	if m := re.FindStringSubmatch(gomod); m != nil {
		return path, m[1]
	}
	die("module %s not found in go.mod", path)
	return "", ""
}

func modDir(repl, ver string) string {
	cache := os.Getenv("GOMODCACHE")
	if cache == "" {
		gp := os.Getenv("GOPATH")
		if gp == "" {
			home, _ := os.UserHomeDir()
			gp = filepath.Join(home, "go")
		}
		cache = filepath.Join(gp, "pkg", "mod")
	}
	// module path escaping: upper-case letters become !lower
	var sb strings.Builder
	for _, r := range repl {
		if r >= 'A' && r <= 'Z' {
			sb.WriteByte('!')
			sb.WriteRune(r + 32)
		} else {
			sb.WriteRune(r)
		}
	}
	return filepath.Join(cache, sb.String()+"@"+ver)
}

func digest(path string) string {
	b, err := os.ReadFile(path)
	if err != nil {
		die("read %s: %v", path, err)
	}
	return fmt.Sprintf("%x", sha256.Sum256(b))
}

type site struct {
	fn        string
	callerArg string
	valueArg  string
	readOnly  string
}

func evmSites(evmGo string) ([]site, bool) {
	fset := token.NewFileSet()
	f, err := parser.ParseFile(fset, evmGo, nil, 0)
	if err != nil {
		die("parse %s: %v", evmGo, err)
	}
	raw, _ := os.ReadFile(evmGo)
	var out []site
	consults := false
	for _, d := range f.Decls {
		fd, ok := d.(*ast.FuncDecl)
		if !ok || fd.Recv == nil {
			continue
		}
		switch fd.Name.Name {
		case "Call", "CallCode", "DelegateCall", "StaticCall":
		default:
			continue
		}
		n := 0
		ast.Inspect(fd.Body, func(nd ast.Node) bool {
			if c, ok := nd.(*ast.CallExpr); ok {
				if sel, ok := c.Fun.(*ast.SelectorExpr); ok && sel.Sel.Name == "RunPrecompiledContract" {
					if len(c.Args) != 6 {
						die("RunPrecompiledContract call with %d args in %s", len(c.Args), fd.Name.Name)
					}
					g := func(e ast.Expr) string {
						return strings.TrimSpace(string(raw[fset.Position(e.Pos()).Offset:fset.Position(e.End()).Offset]))
					}
					out = append(out, site{fn: fd.Name.Name, callerArg: g(c.Args[1]), valueArg: g(c.Args[4]), readOnly: g(c.Args[5])})
					n++
				}
			}
			if s, ok := nd.(*ast.SelectorExpr); ok && s.Sel.Name == "readOnly" {
				consults = true
			}
			return true
		})
		if n != 1 {
			die("%d RunPrecompiledContract call sites in EVM.%s", n, fd.Name.Name)
		}
	}
	if len(out) != 4 {
		die("expected the four call entry points in evm.go, found %d", len(out))
	}
	return out, consults
}

// ---- output ----

func coqStr(s string) string { return "\"" + strings.ReplaceAll(s, "\"", "\"\"") + "\"" }

func coqStrList(l []string) string {
	q := make([]string, len(l))
	for i, s := range l {
		q[i] = coqStr(s)
	}
	return "[" + strings.Join(q, "; ") + "]"
}

func main() {
	repo := os.Getenv("VERIF_REPO")
	if repo == "" {
		repo = "/repo"
	}
	outDir := os.Getenv("VERIF_OUT")
	if outDir == "" {
		outDir = "."
	}
	pkgs := []*pkg{
		loadPkg("staking", filepath.Join(repo, "x/staking/precompile")),
		loadPkg("crosschain", filepath.Join(repo, "x/crosschain/precompile")),
	}
	var sb strings.Builder
	sb.WriteString("(* generated by harness/gen_c09 from x/staking/precompile, x/crosschain/precompile and the module cache — do not edit *)\n")
	sb.WriteString("From Coq Require Import ZArith List String Bool.\nImport ListNotations.\nOpen Scope Z_scope.\nOpen Scope string_scope.\n\n")
	sb.WriteString("Inductive pc_contract := PStaking | PCrosschain.\n")
	sb.WriteString("(* what a method does with the native context / the EVM, in source order (helpers of the package inlined):\n")
	sb.WriteString("   SRead = keeper getter, SWrite = any other keeper call, SNestedDB = keeper path that may run the EVM through a\n")
	sb.WriteString("   nested state DB, SLog = EmitEvent(evm, ..) (StateDB.AddLog), SEvmCall = call through the same EVM (ERC20Call),\n")
	sb.WriteString("   SEvmStatic = static call through the same EVM, SScratch = keeper call on a CacheContext branch that is\n   never written back, SAlt a b = if/else (a loop body appears twice in a) *)\n")
	sb.WriteString("Inductive step := SRead | SWrite | SNestedDB | SScratch | SLog | SEvmCall | SEvmStatic | SAlt (a b : list step).\n")
	sb.WriteString("Inductive guard := GInputLen | GLookup | GReadonly | GDisabled | GDispatch.\n")
	sb.WriteString("Inductive callkind := CALL | CALLCODE | DELEGATECALL | STATICCALL.\n\n")
	sb.WriteString("Record pmethod := mk_pmethod {\n  pm_contract : pc_contract;\n  pm_name : string;          (* ABI method name *)\n  pm_selector : string;      (* 4-byte method id, hex (from the ABI in contract/I*.go) *)\n  pm_gotype : string;\n  pm_readonly : bool;        (* IsReadonly() *)\n  pm_gas : Z;                (* RequiredGas() *)\n  pm_actions : Z;            (* ExecuteNativeAction calls in Run *)\n  pm_outer_ctx : bool;       (* Run obtains the live context outside the action closure *)\n  pm_steps : list step;\n  pm_identities : list string;  (* \"caller\" = contract.Caller(), \"origin\" = evm.Origin; Run and the package helpers it reaches (2 levels) *)\n  pm_origin_sinks : list string; (* functions that receive evm.Origin; \"<helper f>\" = f mentions .Origin *)\n  pm_value : bool;           (* reads contract.Value() *)\n  pm_defers : bool           (* Run contains a defer statement or calls recover() *)\n}.\n\n")
	sb.WriteString("Definition methods : list pmethod := [\n")
	first := true
	sels := map[string]map[string]string{
		"staking":    selectors(filepath.Join(repo, "contract/IStaking.go")),
		"crosschain": selectors(filepath.Join(repo, "contract/ICrossChain.go")),
	}
	for _, p := range pkgs {
		for _, m := range p.methodTable() {
			m.selector = sels[p.name][m.abiName]
			if m.selector == "" {
				die("%s: method %s not in the ABI", p.name, m.abiName)
			}
			if !first {
				sb.WriteString(";\n")
			}
			first = false
			c := "PStaking"
			if m.contract == "crosschain" {
				c = "PCrosschain"
			}
			ro := "false"
			if m.readonly {
				ro = "true"
			}
			oc := "false"
			if m.outerCtx {
				oc = "true"
			}
			vu := "false"
			if m.valueUse {
				vu = "true"
			}
			df := "false"
			if m.defers {
				df = "true"
			}
			fmt.Fprintf(&sb, "  mk_pmethod %s %s %s %s %s %d %d %s [%s] %s %s %s %s", c, coqStr(m.abiName), coqStr(m.selector), coqStr(m.goType), ro, m.gas,
				m.usesAction, oc, strings.Join(m.steps, "; "), coqStrList(m.callerIDs), coqStrList(m.originSinks), vu, df)
		}
	}
	sb.WriteString("\n].\n\n")
	for _, p := range pkgs {
		rs := p.contractRun()
		nm := "staking"
		if p.name == "crosschain" {
			nm = "crosschain"
		}
		fmt.Fprintf(&sb, "Definition %s_run_guards : list guard := [%s].\n", nm, strings.Join(rs.guards, "; "))
		fmt.Fprintf(&sb, "Definition %s_disabled_id_expr : string := %s.\n", nm, coqStr(rs.disabledID))
		ep := "false"
		if rs.errPacked {
			ep = "true"
		}
		fmt.Fprintf(&sb, "Definition %s_errors_packed : bool := %s.\n", nm, ep)
		fl := "false"
		if rs.flat {
			fl = "true"
		}
		rc := "false"
		if rs.recovers {
			rc = "true"
		}
		fmt.Fprintf(&sb, "(* Contract.Run contains a defer statement or calls recover(): a keeper panic would not abort the transaction *)\nDefinition %s_run_recovers : bool := %s.\n", nm, rc)
		nrec := 0
		for _, f := range p.files {
			ast.Inspect(f, func(x ast.Node) bool {
				if c, ok := x.(*ast.CallExpr); ok {
					if id, ok := c.Fun.(*ast.Ident); ok && id.Name == "recover" {
						nrec++
					}
				}
				return true
			})
		}
		fmt.Fprintf(&sb, "(* calls of recover() anywhere in the package (helpers included) *)\nDefinition %s_pkg_recover_calls : Z := %d.\n", nm, nrec)
		fmt.Fprintf(&sb, "(* readonly guard, switch check and dispatch are consecutive unconditional statements of the lookup branch *)\nDefinition %s_guards_flat : bool := %s.\n\n", nm, fl)
	}
	sb.WriteString("(* x/staking/types/contract.go, x/crosschain/types/contract.go: every `args.F.Sign() op literal` in a Validate() method,\n   the condition under which the call is REFUSED: (args type, field, operator, literal) *)\n")
	sb.WriteString("Definition arg_sign_checks : list (string * string * string * string) := [\n")
	var scs [][4]string
	scs = append(scs, signChecks(filepath.Join(repo, "x/staking/types/contract.go"))...)
	scs = append(scs, signChecks(filepath.Join(repo, "x/crosschain/types/contract.go"))...)
	for i, c := range scs {
		if i > 0 {
			sb.WriteString(";\n")
		}
		fmt.Fprintf(&sb, "  (%s, %s, %s, %s)", coqStr(c[0]), coqStr(c[1]), coqStr(c[2]), coqStr(c[3]))
	}
	sb.WriteString("\n].\n\n")
	gomodB, err := os.ReadFile(filepath.Join(repo, "go.mod"))
	if err != nil {
		die("read go.mod: %v", err)
	}
	gomod := string(gomodB)
	er, ev := modVersion(gomod, "github.com/evmos/ethermint")
	gr, gv := modVersion(gomod, "github.com/ethereum/go-ethereum")
	ed, gd := modDir(er, ev), modDir(gr, gv)
	sites, consults := evmSites(filepath.Join(gd, "core/vm/evm.go"))
	sb.WriteString("(* go-ethereum fork core/vm/evm.go: the RunPrecompiledContract call in each entry point:\n   (entry point, caller argument, value argument, readOnly argument) *)\n")
	sb.WriteString("Definition evm_sites : list (callkind * string * string * string) := [\n")
	kind := map[string]string{"Call": "CALL", "CallCode": "CALLCODE", "DelegateCall": "DELEGATECALL", "StaticCall": "STATICCALL"}
	for i, s := range sites {
		if i > 0 {
			sb.WriteString(";\n")
		}
		fmt.Fprintf(&sb, "  (%s, %s, %s, %s)", kind[s.fn], coqStr(s.callerArg), coqStr(s.valueArg), coqStr(s.readOnly))
	}
	sb.WriteString("\n].\n")
	cs := "false"
	if consults {
		cs = "true"
	}
	fmt.Fprintf(&sb, "(* does any of the four entry points mention the interpreter's readOnly flag? *)\nDefinition evm_entry_consults_interpreter_readonly : bool := %s.\n\n", cs)
	sb.WriteString("Definition dep_versions : list (string * string) := [\n")
	fmt.Fprintf(&sb, "  (%s, %s);\n  (%s, %s)\n].\n", coqStr(er), coqStr(ev), coqStr(gr), coqStr(gv))
	sb.WriteString("Definition dep_digests : list (string * string) := [\n")
	deps := [][2]string{
		{"ethermint/x/evm/statedb/native.go", filepath.Join(ed, "x/evm/statedb/native.go")},
		{"ethermint/x/evm/statedb/journal.go", filepath.Join(ed, "x/evm/statedb/journal.go")},
		{"ethermint/x/evm/statedb/statedb.go", filepath.Join(ed, "x/evm/statedb/statedb.go")},
		{"ethermint/x/evm/statedb/state_object.go", filepath.Join(ed, "x/evm/statedb/state_object.go")},
		{"go-ethereum/core/vm/evm.go", filepath.Join(gd, "core/vm/evm.go")},
		{"go-ethereum/core/vm/contracts.go", filepath.Join(gd, "core/vm/contracts.go")},
	}
	for i, d := range deps {
		if i > 0 {
			sb.WriteString(";\n")
		}
		fmt.Fprintf(&sb, "  (%s, %s)", coqStr(d[0]), coqStr(digest(d[1])))
	}
	sb.WriteString("\n].\n")
	if err := os.WriteFile(filepath.Join(outDir, "Gen_Precompiles.v"), []byte(sb.String()), 0o644); err != nil {
		die("%v", err)
	}
}
