// gen_c11: translator for property C11 — the call-path facts of the two share-transfer entry points.
//
// Reads $VERIF_REPO/x/staking/precompile/transfer_shares.go with go/ast and writes Gen_C11.v:
// for TransferShares.Run and TransferFromShares.Run
//
//	which caller-side value is handed to handlerTransferShares as the sender (`from`) and as the
//	recipient (`to`),
//	which values reach the 2nd argument of stakingKeeper.HasReceivingRedelegation (the "sender has an
//	incoming redelegation" guard) — directly in Run, inside the handler, or inside any helper of the
//	file that Run / the handler call —,
//	and which values are the (owner, spender) of decrementAllowance.
//
// Values are classified symbolically: contract.Caller() = SCaller, args.From = SArgsFrom,
// args.To = SArgsTo (through `x := …` aliases, `.Bytes()` and address conversions).
// coq/proofs/P_Shares.v proves from these generated definitions that in BOTH entry points the guard is
// applied to the account whose shares leave, and that the model's exec agrees with them.
// The translator fails loudly when it cannot find the shapes it expects.
package main

import (
	"fmt"
	"go/ast"
	"go/parser"
	"go/token"
	"os"
	"path/filepath"
	"sort"
	"strings"
)

type fn struct {
	decl   *ast.FuncDecl
	recv   string
	params []string
}

var funcs = map[string]*fn{} // by method name (the file's methods have distinct names except Run & co, keyed recv.name too)

func recvName(d *ast.FuncDecl) string {
	if d.Recv == nil || len(d.Recv.List) == 0 {
		return ""
	}
	t := d.Recv.List[0].Type
	if s, ok := t.(*ast.StarExpr); ok {
		t = s.X
	}
	if id, ok := t.(*ast.Ident); ok {
		return id.Name
	}
	return ""
}

func fail(f string, a ...interface{}) {
	fmt.Fprintf(os.Stderr, "gen_c11: "+f+"\n", a...)
	os.Exit(1)
}

// strip .Bytes(), conversions T(x) and parentheses
func strip(e ast.Expr) ast.Expr {
	for {
		switch x := e.(type) {
		case *ast.ParenExpr:
			e = x.X
		case *ast.CallExpr:
			if sel, ok := x.Fun.(*ast.SelectorExpr); ok && sel.Sel.Name == "Bytes" && len(x.Args) == 0 {
				e = sel.X
				continue
			}
			// conversion: sdk.AccAddress(x), common.BytesToAddress(x)
			if len(x.Args) == 1 {
				if sel, ok := x.Fun.(*ast.SelectorExpr); ok {
					n := sel.Sel.Name
					if n == "AccAddress" || n == "BytesToAddress" || n == "ValAddress" {
						e = x.Args[0]
						continue
					}
				}
			}
			return e
		default:
			return e
		}
	}
}

func callName(c *ast.CallExpr) string {
	switch f := c.Fun.(type) {
	case *ast.SelectorExpr:
		return f.Sel.Name
	case *ast.Ident:
		return f.Name
	}
	return ""
}

// guardParams: indices of fn's parameters that reach HasReceivingRedelegation's delegator argument
func guardParams(name string, depth int) map[int]bool {
	res := map[int]bool{}
	f := funcs[name]
	if f == nil || depth > 4 {
		return res
	}
	idx := map[string]int{}
	for i, p := range f.params {
		idx[p] = i
	}
	alias := map[string]ast.Expr{}
	resolve := func(e ast.Expr) (int, bool) {
		e = strip(e)
		for k := 0; k < 5; k++ {
			id, ok := e.(*ast.Ident)
			if !ok {
				return 0, false
			}
			if i, ok := idx[id.Name]; ok {
				return i, true
			}
			a, ok := alias[id.Name]
			if !ok {
				return 0, false
			}
			e = strip(a)
		}
		return 0, false
	}
	ast.Inspect(f.decl.Body, func(n ast.Node) bool {
		switch x := n.(type) {
		case *ast.AssignStmt:
			if len(x.Lhs) == 1 && len(x.Rhs) == 1 {
				if id, ok := x.Lhs[0].(*ast.Ident); ok {
					alias[id.Name] = x.Rhs[0]
				}
			}
		case *ast.CallExpr:
			cn := callName(x)
			if cn == "HasReceivingRedelegation" && len(x.Args) >= 2 {
				if i, ok := resolve(x.Args[1]); ok {
					res[i] = true
				}
			} else if g := funcs[cn]; g != nil && cn != name {
				for pi := range guardParams(cn, depth+1) {
					if pi < len(x.Args) {
						if i, ok := resolve(x.Args[pi]); ok {
							res[i] = true
						}
					}
				}
			}
		}
		return true
	})
	return res
}

type facts struct {
	sender, recipient        string
	guards                   map[string]bool
	allowOwner, allowSpender string
}

func entryFacts(recv string) facts {
	var run *ast.FuncDecl
	for _, f := range funcs {
		if f.recv == recv && f.decl.Name.Name == "Run" {
			run = f.decl
		}
	}
	if run == nil {
		fail("no method %s.Run", recv)
	}
	alias := map[string]ast.Expr{}
	var classify func(e ast.Expr, depth int) string
	classify = func(e ast.Expr, depth int) string {
		e = strip(e)
		if depth > 5 {
			return ""
		}
		switch x := e.(type) {
		case *ast.CallExpr:
			if sel, ok := x.Fun.(*ast.SelectorExpr); ok && sel.Sel.Name == "Caller" {
				if id, ok := sel.X.(*ast.Ident); ok && id.Name == "contract" {
					return "SCaller"
				}
			}
		case *ast.SelectorExpr:
			if id, ok := x.X.(*ast.Ident); ok && id.Name == "args" {
				switch x.Sel.Name {
				case "From":
					return "SArgsFrom"
				case "To":
					return "SArgsTo"
				}
			}
		case *ast.Ident:
			if a, ok := alias[x.Name]; ok {
				return classify(a, depth+1)
			}
		}
		return ""
	}
	fa := facts{guards: map[string]bool{}}
	need := func(e ast.Expr, what string) string {
		c := classify(e, 0)
		if c == "" {
			fail("%s.Run: cannot classify the %s expression", recv, what)
		}
		return c
	}
	handlerSeen := false
	ast.Inspect(run.Body, func(n ast.Node) bool {
		switch x := n.(type) {
		case *ast.AssignStmt:
			if len(x.Lhs) == 1 && len(x.Rhs) == 1 {
				if id, ok := x.Lhs[0].(*ast.Ident); ok {
					alias[id.Name] = x.Rhs[0]
				}
			}
		case *ast.CallExpr:
			cn := callName(x)
			switch {
			case cn == "handlerTransferShares":
				h := funcs[cn]
				if h == nil {
					fail("handlerTransferShares not found")
				}
				fi, ti := -1, -1
				for i, p := range h.params {
					if p == "from" {
						fi = i
					}
					if p == "to" {
						ti = i
					}
				}
				if fi < 0 || ti < 0 || len(x.Args) != len(h.params) {
					fail("handlerTransferShares: parameters from/to not found")
				}
				handlerSeen = true
				fa.sender = need(x.Args[fi], "sender")
				fa.recipient = need(x.Args[ti], "recipient")
				for pi := range guardParams(cn, 0) {
					fa.guards[need(x.Args[pi], "guarded")] = true
				}
			case cn == "HasReceivingRedelegation" && len(x.Args) >= 2:
				fa.guards[need(x.Args[1], "guarded")] = true
			case cn == "decrementAllowance" && len(x.Args) == 5:
				fa.allowOwner = need(x.Args[2], "allowance owner")
				fa.allowSpender = need(x.Args[3], "allowance spender")
			default:
				if g := funcs[cn]; g != nil && cn != "Run" {
					for pi := range guardParams(cn, 0) {
						if pi < len(x.Args) {
							fa.guards[need(x.Args[pi], "guarded")] = true
						}
					}
				}
			}
		}
		return true
	})
	if !handlerSeen {
		fail("%s.Run does not call handlerTransferShares", recv)
	}
	return fa
}

func (f facts) coq(name string) string {
	var gs []string
	for g := range f.guards {
		gs = append(gs, g)
	}
	sort.Strings(gs)
	allow := "None"
	if f.allowOwner != "" {
		allow = fmt.Sprintf("Some (%s, %s)", f.allowOwner, f.allowSpender)
	}
	return fmt.Sprintf("Definition %s : entry_facts :=\n  {| ef_sender := %s; ef_recipient := %s; ef_guards := [%s]; ef_allow := %s |}.\n",
		name, f.sender, f.recipient, strings.Join(gs, "; "), allow)
}

func main() {
	repo := os.Getenv("VERIF_REPO")
	if repo == "" {
		repo = "/repo"
	}
	out := os.Getenv("VERIF_OUT")
	if out == "" {
		out = "."
	}
	path := filepath.Join(repo, "x", "staking", "precompile", "transfer_shares.go")
	fset := token.NewFileSet()
	file, err := parser.ParseFile(fset, path, nil, 0)
	if err != nil {
		fail("parse: %v", err)
	}
	for _, d := range file.Decls {
		fd, ok := d.(*ast.FuncDecl)
		if !ok || fd.Body == nil {
			continue
		}
		f := &fn{decl: fd, recv: recvName(fd)}
		for _, p := range fd.Type.Params.List {
			for _, n := range p.Names {
				f.params = append(f.params, n.Name)
			}
		}
		key := fd.Name.Name
		if key == "Run" || funcs[key] != nil {
			key = f.recv + "." + key
		}
		funcs[key] = f
	}
	t := entryFacts("TransferShares")
	tf := entryFacts("TransferFromShares")
	var sb strings.Builder
	sb.WriteString("(* generated by harness/gen_c11 from x/staking/precompile/transfer_shares.go; do not edit *)\n")
	sb.WriteString("From Coq Require Import ZArith List.\nFrom FxV Require Import model.M_Shares.\nImport ListNotations.\n\n")
	sb.WriteString("(* TransferShares.Run: who is the sender / recipient handed to handlerTransferShares, which values are\n   checked with HasReceivingRedelegation, and the (owner, spender) of decrementAllowance *)\n")
	sb.WriteString(t.coq("gen_transfer_facts"))
	sb.WriteString("\n(* TransferFromShares.Run *)\n")
	sb.WriteString(tf.coq("gen_transfer_from_facts"))
	if err := os.WriteFile(filepath.Join(out, "Gen_C11.v"), []byte(sb.String()), 0o644); err != nil {
		fail("write: %v", err)
	}
}
