// gen_c12: translator for property C12.
//
// Reads, from the tree under $VERIF_REPO (default /repo):
//
//	x/crosschain/types/types.go          the three GetCheckpoint methods: the arguments of
//	                                     contract.GetFxBridgeABI().Pack("<method>", ...) and how
//	                                     each is computed from the receiver (go/ast data flow)
//	contract/contract.go, IFxBridgeLogic.go   the ABI JSON the Pack call resolves "<method>" in
//	x/tron/types/checkpoint.go           the three []abi.Param{{"type": expr}, ...} literals
//	x/crosschain/types/eth_signer.go, x/tron/types/signer.go   the signed-message prefixes
//	solidity/contracts/bridge/FxBridgeLogic.sol   the abi.encode(...) argument lists of makeCheckpoint,
//	                                     submitBatch and bridgeCallSigHash with the declared type of
//	                                     every argument, and verifySig's prefix
//
// and writes coq/gen/Gen_Checkpoint.v.  Any shape it does not recognise is a hard error.
package main

import (
	"encoding/json"
	"fmt"
	"go/ast"
	"go/parser"
	"go/token"
	"math/big"
	"os"
	"path/filepath"
	"regexp"
	"strconv"
	"strings"
)

func die(f string, a ...interface{}) {
	fmt.Fprintf(os.Stderr, "gen_c12: "+f+"\n", a...)
	os.Exit(1)
}

func repo() string {
	if r := os.Getenv("VERIF_REPO"); r != "" {
		return r
	}
	return "/repo"
}

// ---------------------------------------------------------------- Coq printing

func coqStr(s string) string { return "\"" + strings.ReplaceAll(s, "\"", "\"\"") + "\"" }

func coqBytes(s string) string {
	parts := make([]string, len(s))
	for i := 0; i < len(s); i++ {
		parts[i] = strconv.Itoa(int(s[i]))
	}
	return "[" + strings.Join(parts, "; ") + "]"
}

var reUint = regexp.MustCompile(`^uint(\d*)$`)
var reInt = regexp.MustCompile(`^int(\d*)$`)
var reFixBytes = regexp.MustCompile(`^bytes(\d+)$`)

// abity renders an ABI / Solidity type name as a term of M_CkDesc.abity
func abity(t string) string {
	t = strings.TrimSpace(t)
	if strings.HasSuffix(t, "[]") {
		return "(A_arr " + abity(strings.TrimSuffix(t, "[]")) + ")"
	}
	if m := reUint.FindStringSubmatch(t); m != nil {
		bits := m[1]
		if bits == "" {
			bits = "256"
		}
		return "(A_uint " + bits + ")"
	}
	if m := reInt.FindStringSubmatch(t); m != nil {
		bits := m[1]
		if bits == "" {
			bits = "256"
		}
		return "(A_int " + bits + ")"
	}
	if m := reFixBytes.FindStringSubmatch(t); m != nil {
		return "(A_fixbytes " + m[1] + ")"
	}
	switch t {
	case "address", "address payable":
		return "A_address"
	case "bool":
		return "A_bool"
	case "bytes":
		return "A_bytes"
	case "string":
		return "A_string"
	}
	return "(A_other " + coqStr(t) + ")"
}

// ---------------------------------------------------------------- Go side

type goFn struct {
	fset     *token.FileSet
	fn       *ast.FuncDecl
	recv     string // receiver / object parameter name
	gidParam string // the string parameter
}

func parseFile(path string) (*token.FileSet, *ast.File) {
	fset := token.NewFileSet()
	f, err := parser.ParseFile(fset, path, nil, 0)
	if err != nil {
		die("parse %s: %v", path, err)
	}
	return fset, f
}

func sel(e ast.Expr) (string, string, bool) { // X.Sel with X an identifier
	s, ok := e.(*ast.SelectorExpr)
	if !ok {
		return "", "", false
	}
	x, ok := s.X.(*ast.Ident)
	if !ok {
		return "", "", false
	}
	return x.Name, s.Sel.Name, true
}

// path of a selector chain rooted at identifier root: root.A.B -> "A.B"
func fieldPath(e ast.Expr, root string) (string, bool) {
	var parts []string
	for {
		switch x := e.(type) {
		case *ast.SelectorExpr:
			parts = append([]string{x.Sel.Name}, parts...)
			e = x.X
		case *ast.Ident:
			if x.Name != root || len(parts) == 0 {
				return "", false
			}
			return strings.Join(parts, "."), true
		default:
			return "", false
		}
	}
}

func isCall(e ast.Expr, pkg, name string) (*ast.CallExpr, bool) {
	c, ok := e.(*ast.CallExpr)
	if !ok {
		return nil, false
	}
	p, n, ok := sel(c.Fun)
	if !ok || p != pkg || n != name {
		return nil, false
	}
	return c, true
}

// conv(root.path) for a scalar expression; returns (conv, path)
func (g *goFn) scalar(e ast.Expr, root string) (string, string, bool) {
	// big.NewInt(int64(root.path))
	if c, ok := isCall(e, "big", "NewInt"); ok && len(c.Args) == 1 {
		if in, ok := c.Args[0].(*ast.CallExpr); ok && len(in.Args) == 1 {
			if id, ok := in.Fun.(*ast.Ident); ok && id.Name == "int64" {
				if p, ok := fieldPath(in.Args[0], root); ok {
					return "CI64", p, true
				}
			}
		}
		return "", "", false
	}
	// new(big.Int).SetUint64(root.path): the cast-free conversion (not used by the current tree)
	if c, ok := e.(*ast.CallExpr); ok && len(c.Args) == 1 {
		if s, ok := c.Fun.(*ast.SelectorExpr); ok && s.Sel.Name == "SetUint64" {
			if n, ok := s.X.(*ast.CallExpr); ok && len(n.Args) == 1 {
				if f, ok := n.Fun.(*ast.Ident); ok && f.Name == "new" {
					if p, q, ok := sel(n.Args[0]); ok && p == "big" && q == "Int" {
						if fp, ok := fieldPath(c.Args[0], root); ok {
							return "CU64", fp, true
						}
					}
				}
			}
			return "", "", false
		}
	}
	// gethcommon.HexToAddress(root.path)
	for _, pkg := range []string{"gethcommon", "common"} {
		if c, ok := isCall(e, pkg, "HexToAddress"); ok && len(c.Args) == 1 {
			if p, ok := fieldPath(c.Args[0], root); ok {
				return "CAddr", p, true
			}
			return "", "", false
		}
	}
	// root.path.BigInt()
	if c, ok := e.(*ast.CallExpr); ok && len(c.Args) == 0 {
		if s, ok := c.Fun.(*ast.SelectorExpr); ok && s.Sel.Name == "BigInt" {
			if p, ok := fieldPath(s.X, root); ok {
				return "CBig", p, true
			}
		}
		return "", "", false
	}
	// root.path as is (tron: address strings)
	if p, ok := fieldPath(e, root); ok {
		return "CStr", p, true
	}
	return "", "", false
}

// definition of local variable name: the (single) assignment/definition statement at function level
func (g *goFn) localDef(name string) ast.Expr {
	var found ast.Expr
	n := 0
	for _, st := range g.fn.Body.List {
		as, ok := st.(*ast.AssignStmt)
		if !ok || len(as.Rhs) != 1 {
			continue
		}
		for i, l := range as.Lhs {
			if id, ok := l.(*ast.Ident); ok && id.Name == name && (i == 0) {
				found = as.Rhs[0]
				n++
			}
		}
	}
	if n != 1 {
		return nil
	}
	return found
}

// element expression stored into slice variable name inside a `for _, v := range recv.Coll` loop
func (g *goFn) sliceFill(name string) (coll string, elemVar string, elem ast.Expr, ok bool) {
	count := 0
	for _, st := range g.fn.Body.List {
		rs, isRange := st.(*ast.RangeStmt)
		if !isRange {
			continue
		}
		c, okc := fieldPath(rs.X, g.recv)
		v, okv := rs.Value.(*ast.Ident)
		if !okc || !okv {
			continue
		}
		idx, _ := rs.Key.(*ast.Ident)
		for _, bs := range rs.Body.List {
			as, isAs := bs.(*ast.AssignStmt)
			if !isAs || len(as.Lhs) != 1 || len(as.Rhs) != 1 {
				continue
			}
			// name[i] = EXPR
			if ix, isIx := as.Lhs[0].(*ast.IndexExpr); isIx {
				if id, isId := ix.X.(*ast.Ident); isId && id.Name == name {
					if k, isK := ix.Index.(*ast.Ident); !isK || idx == nil || k.Name != idx.Name {
						die("%s: slice %s is not filled at the loop index", g.fn.Name.Name, name)
					}
					coll, elemVar, elem = c, v.Name, as.Rhs[0]
					count++
				}
				continue
			}
			// name = append(name, EXPR)
			if id, isId := as.Lhs[0].(*ast.Ident); isId && id.Name == name {
				if call, isCall := as.Rhs[0].(*ast.CallExpr); isCall && len(call.Args) == 2 {
					if f, isF := call.Fun.(*ast.Ident); isF && f.Name == "append" {
						if a0, isA := call.Args[0].(*ast.Ident); isA && a0.Name == name {
							coll, elemVar, elem = c, v.Name, call.Args[1]
							count++
						}
					}
				}
			}
		}
	}
	return coll, elemVar, elem, count == 1
}

// classify one Pack/Param argument expression into a gexpr term
func (g *goFn) classify(e ast.Expr) string {
	where := g.fn.Name.Name
	if id, ok := e.(*ast.Ident); ok {
		def := g.localDef(id.Name)
		if def == nil {
			die("%s: no unique definition of %s", where, id.Name)
		}
		if c, ok := isCall(def, "fxtypes", "StrToByte32"); ok && len(c.Args) == 1 {
			switch a := c.Args[0].(type) {
			case *ast.Ident:
				if a.Name == g.gidParam {
					return "GGravity"
				}
			case *ast.BasicLit:
				if a.Kind == token.STRING {
					s, err := strconv.Unquote(a.Value)
					if err != nil {
						die("%s: %v", where, err)
					}
					return "(GConst " + coqStr(s) + ")"
				}
			}
			die("%s: StrToByte32 of something that is neither the gravity id parameter nor a literal", where)
		}
		if c, ok := isCall(def, "hex", "DecodeString"); ok && len(c.Args) == 1 {
			if p, ok := fieldPath(c.Args[0], g.recv); ok {
				return "(GField CHex " + coqStr(p) + ")"
			}
			die("%s: hex.DecodeString of a non-field", where)
		}
		if c, ok := def.(*ast.CallExpr); ok {
			if f, ok := c.Fun.(*ast.Ident); ok && f.Name == "make" {
				coll, ev, elem, ok := g.sliceFill(id.Name)
				if !ok {
					die("%s: slice %s is not filled by exactly one statement in a range loop over a receiver field", where, id.Name)
				}
				cv, p, ok := g.scalar(elem, ev)
				if !ok {
					die("%s: element expression of %s not recognised", where, id.Name)
				}
				return "(GMap " + cv + " " + coqStr(coll) + " " + coqStr(p) + ")"
			}
		}
		die("%s: definition of %s not recognised", where, id.Name)
	}
	if cv, p, ok := g.scalar(e, g.recv); ok {
		return "(GField " + cv + " " + coqStr(p) + ")"
	}
	die("%s: argument expression not recognised at %v", where, g.fset.Position(e.Pos()))
	return ""
}

func findFunc(f *ast.File, recvType, name string) *ast.FuncDecl {
	for _, d := range f.Decls {
		fd, ok := d.(*ast.FuncDecl)
		if !ok || fd.Name.Name != name {
			continue
		}
		if recvType == "" {
			if fd.Recv == nil {
				return fd
			}
			continue
		}
		if fd.Recv == nil || len(fd.Recv.List) != 1 {
			continue
		}
		if st, ok := fd.Recv.List[0].Type.(*ast.StarExpr); ok {
			if id, ok := st.X.(*ast.Ident); ok && id.Name == recvType {
				return fd
			}
		}
	}
	return nil
}

// abiInputs: method name -> input types, from the ABI JSON in contract/IFxBridgeLogic.go,
// after checking that GetFxBridgeABI() returns the ABI parsed from that JSON.
func abiInputs() map[string][]string {
	_, cf := parseFile(filepath.Join(repo(), "contract/contract.go"))
	okVar, okRet := false, false
	ast.Inspect(cf, func(n ast.Node) bool {
		switch x := n.(type) {
		case *ast.ValueSpec:
			for i, nm := range x.Names {
				if nm.Name == "fxBridgeABI" && i < len(x.Values) {
					if c, ok := x.Values[i].(*ast.CallExpr); ok && len(c.Args) == 1 {
						if f, ok := c.Fun.(*ast.Ident); ok && f.Name == "MustABIJson" {
							if p, s, ok := sel(c.Args[0]); ok && p == "IFxBridgeLogicMetaData" && s == "ABI" {
								okVar = true
							}
						}
					}
				}
			}
		case *ast.FuncDecl:
			if x.Name.Name == "GetFxBridgeABI" && x.Body != nil && len(x.Body.List) == 1 {
				if r, ok := x.Body.List[0].(*ast.ReturnStmt); ok && len(r.Results) == 1 {
					if id, ok := r.Results[0].(*ast.Ident); ok && id.Name == "fxBridgeABI" {
						okRet = true
					}
				}
			}
		}
		return true
	})
	if !okVar || !okRet {
		die("contract/contract.go: GetFxBridgeABI no longer returns MustABIJson(IFxBridgeLogicMetaData.ABI)")
	}
	_, lf := parseFile(filepath.Join(repo(), "contract/IFxBridgeLogic.go"))
	var raw string
	ast.Inspect(lf, func(n ast.Node) bool {
		vs, ok := n.(*ast.ValueSpec)
		if !ok || len(vs.Names) != 1 || vs.Names[0].Name != "IFxBridgeLogicMetaData" || len(vs.Values) != 1 {
			return true
		}
		ast.Inspect(vs.Values[0], func(m ast.Node) bool {
			kv, ok := m.(*ast.KeyValueExpr)
			if !ok {
				return true
			}
			if k, ok := kv.Key.(*ast.Ident); ok && k.Name == "ABI" {
				if l, ok := kv.Value.(*ast.BasicLit); ok && l.Kind == token.STRING {
					s, err := strconv.Unquote(l.Value)
					if err != nil {
						die("IFxBridgeLogic.go: %v", err)
					}
					raw = s
				}
			}
			return true
		})
		return false
	})
	if raw == "" {
		die("contract/IFxBridgeLogic.go: IFxBridgeLogicMetaData.ABI string not found")
	}
	var entries []struct {
		Type   string `json:"type"`
		Name   string `json:"name"`
		Inputs []struct {
			Type string `json:"type"`
		} `json:"inputs"`
	}
	if err := json.Unmarshal([]byte(raw), &entries); err != nil {
		die("ABI JSON: %v", err)
	}
	res := map[string][]string{}
	for _, e := range entries {
		if e.Type != "function" {
			continue
		}
		if _, dup := res[e.Name]; dup {
			die("ABI JSON: overloaded method %s", e.Name)
		}
		var ts []string
		for _, in := range e.Inputs {
			ts = append(ts, in.Type)
		}
		res[e.Name] = ts
	}
	return res
}

type table struct {
	rows   []string // "(expr, abity)"
	method string
	strip  int
}

func (t table) coq() string { return "[ " + strings.Join(t.rows, ";\n    ") + " ]" }

// goEthTable: one GetCheckpoint method of x/crosschain/types/types.go
func goEthTable(fset *token.FileSet, f *ast.File, recvType string, abi map[string][]string) table {
	fd := findFunc(f, recvType, "GetCheckpoint")
	if fd == nil {
		die("types.go: (*%s).GetCheckpoint not found", recvType)
	}
	if len(fd.Recv.List[0].Names) != 1 || len(fd.Type.Params.List) != 1 || len(fd.Type.Params.List[0].Names) != 1 {
		die("types.go: (*%s).GetCheckpoint: unexpected signature", recvType)
	}
	g := &goFn{fset: fset, fn: fd, recv: fd.Recv.List[0].Names[0].Name, gidParam: fd.Type.Params.List[0].Names[0].Name}
	// the Pack call
	var pack *ast.CallExpr
	var packVar string
	for _, st := range fd.Body.List {
		as, ok := st.(*ast.AssignStmt)
		if !ok || len(as.Rhs) != 1 {
			continue
		}
		c, ok := as.Rhs[0].(*ast.CallExpr)
		if !ok {
			continue
		}
		s, ok := c.Fun.(*ast.SelectorExpr)
		if !ok || s.Sel.Name != "Pack" {
			continue
		}
		if in, ok := isCall(s.X, "contract", "GetFxBridgeABI"); !ok || len(in.Args) != 0 {
			die("types.go: (*%s).GetCheckpoint: Pack is not called on contract.GetFxBridgeABI()", recvType)
		}
		if pack != nil {
			die("types.go: (*%s).GetCheckpoint: more than one Pack call", recvType)
		}
		pack = c
		if id, ok := as.Lhs[0].(*ast.Ident); ok {
			packVar = id.Name
		}
	}
	if pack == nil || packVar == "" || len(pack.Args) < 1 {
		die("types.go: (*%s).GetCheckpoint: Pack call not found", recvType)
	}
	lit, ok := pack.Args[0].(*ast.BasicLit)
	if !ok || lit.Kind != token.STRING {
		die("types.go: (*%s).GetCheckpoint: Pack method name is not a literal", recvType)
	}
	method, _ := strconv.Unquote(lit.Value)
	ins, ok := abi[method]
	if !ok {
		die("ABI JSON has no method %q", method)
	}
	if len(ins) != len(pack.Args)-1 {
		die("types.go: (*%s).GetCheckpoint: %d Pack arguments, ABI method %s has %d inputs", recvType, len(pack.Args)-1, method, len(ins))
	}
	// what is hashed: Keccak256Hash(packVar[4:]) must be the only use of a hash in a return path
	strip := -1
	nHash := 0
	ast.Inspect(fd.Body, func(n ast.Node) bool {
		c, ok := n.(*ast.CallExpr)
		if !ok {
			return true
		}
		if p, s, ok := sel(c.Fun); ok && p == "crypto" && (s == "Keccak256Hash" || s == "Keccak256") {
			nHash++
			if len(c.Args) == 1 {
				if sl, ok := c.Args[0].(*ast.SliceExpr); ok && sl.High == nil {
					if id, ok := sl.X.(*ast.Ident); ok && id.Name == packVar {
						if lo, ok := sl.Low.(*ast.BasicLit); ok {
							strip, _ = strconv.Atoi(lo.Value)
						}
					}
				}
			}
		}
		return true
	})
	if nHash != 1 || strip < 0 {
		die("types.go: (*%s).GetCheckpoint: expected exactly one crypto.Keccak256Hash(%s[k:])", recvType, packVar)
	}
	t := table{method: method, strip: strip}
	for i, a := range pack.Args[1:] {
		t.rows = append(t.rows, "("+g.classify(a)+", "+abity(ins[i])+")")
	}
	return t
}

// goTronTable: one function of x/tron/types/checkpoint.go
func goTronTable(fset *token.FileSet, f *ast.File, name string) table {
	fd := findFunc(f, "", name)
	if fd == nil {
		die("tron checkpoint.go: %s not found", name)
	}
	if len(fd.Type.Params.List) != 2 || len(fd.Type.Params.List[0].Names) != 1 || len(fd.Type.Params.List[1].Names) != 1 {
		die("tron checkpoint.go: %s: unexpected signature", name)
	}
	g := &goFn{fset: fset, fn: fd, recv: fd.Type.Params.List[0].Names[0].Name, gidParam: fd.Type.Params.List[1].Names[0].Name}
	var lit *ast.CompositeLit
	var paramsVar, encVar string
	for _, st := range fd.Body.List {
		as, ok := st.(*ast.AssignStmt)
		if !ok || len(as.Rhs) != 1 {
			continue
		}
		if cl, ok := as.Rhs[0].(*ast.CompositeLit); ok {
			if at, ok := cl.Type.(*ast.ArrayType); ok {
				if p, s, ok := sel(at.Elt); ok && p == "abi" && s == "Param" {
					if lit != nil {
						die("tron checkpoint.go: %s: more than one []abi.Param literal", name)
					}
					lit = cl
					paramsVar = as.Lhs[0].(*ast.Ident).Name
				}
			}
		}
		if c, ok := isCall(as.Rhs[0], "abi", "GetPaddedParam"); ok && len(c.Args) == 1 {
			if id, ok := c.Args[0].(*ast.Ident); ok && id.Name == paramsVar && paramsVar != "" {
				encVar = as.Lhs[0].(*ast.Ident).Name
			}
		}
	}
	if lit == nil || encVar == "" {
		die("tron checkpoint.go: %s: params literal / abi.GetPaddedParam(params) not found", name)
	}
	nHash, okHash := 0, false
	ast.Inspect(fd.Body, func(n ast.Node) bool {
		if c, ok := n.(*ast.CallExpr); ok {
			if p, s, ok := sel(c.Fun); ok && p == "crypto" && strings.HasPrefix(s, "Keccak256") {
				nHash++
				if len(c.Args) == 1 {
					if id, ok := c.Args[0].(*ast.Ident); ok && id.Name == encVar {
						okHash = true
					}
				}
			}
		}
		return true
	})
	if nHash != 1 || !okHash {
		die("tron checkpoint.go: %s: expected exactly one crypto.Keccak256(%s)", name, encVar)
	}
	t := table{method: name, strip: 0}
	for _, el := range lit.Elts {
		cl, ok := el.(*ast.CompositeLit)
		if !ok || len(cl.Elts) != 1 {
			die("tron checkpoint.go: %s: abi.Param element is not {\"type\": value}", name)
		}
		kv, ok := cl.Elts[0].(*ast.KeyValueExpr)
		if !ok {
			die("tron checkpoint.go: %s: abi.Param element is not {\"type\": value}", name)
		}
		kl, ok := kv.Key.(*ast.BasicLit)
		if !ok || kl.Kind != token.STRING {
			die("tron checkpoint.go: %s: abi.Param key is not a string literal", name)
		}
		ty, _ := strconv.Unquote(kl.Value)
		t.rows = append(t.rows, "("+g.classify(kv.Value)+", "+abity(ty)+")")
	}
	return t
}

func goConstString(path, name string) string {
	_, f := parseFile(path)
	var out *string
	ast.Inspect(f, func(n ast.Node) bool {
		vs, ok := n.(*ast.ValueSpec)
		if !ok {
			return true
		}
		for i, nm := range vs.Names {
			if nm.Name == name && i < len(vs.Values) {
				if l, ok := vs.Values[i].(*ast.BasicLit); ok && l.Kind == token.STRING {
					s, err := strconv.Unquote(l.Value)
					if err != nil {
						die("%s: %v", path, err)
					}
					out = &s
				}
			}
		}
		return true
	})
	if out == nil {
		die("%s: string constant %s not found", path, name)
	}
	return *out
}

// msgConfirmFacts: does MsgConfirm implement UnpackInterfaces; does it have a ValidateBasic that compares its
// BridgerAddress with the wrapped confirm's bridger (== / != between m.BridgerAddress and a GetBridgerAddress() call
// or a .BridgerAddress selector)
func msgConfirmFacts() (unpacks, compares bool) {
	dir := filepath.Join(repo(), "x/crosschain/types")
	ents, err := os.ReadDir(dir)
	if err != nil {
		die("%v", err)
	}
	seenMsgs := false
	for _, e := range ents {
		n := e.Name()
		if e.IsDir() || !strings.HasSuffix(n, ".go") || strings.HasSuffix(n, "_test.go") || strings.HasSuffix(n, ".pb.go") || strings.HasSuffix(n, ".pb.gw.go") {
			continue
		}
		_, f := parseFile(filepath.Join(dir, n))
		if n == "msgs.go" {
			seenMsgs = true
		}
		if fd := findFunc(f, "MsgConfirm", "UnpackInterfaces"); fd != nil {
			unpacks = true
		}
		if fd := findFunc(f, "MsgConfirm", "ValidateBasic"); fd != nil && fd.Body != nil && len(fd.Recv.List[0].Names) == 1 {
			recv := fd.Recv.List[0].Names[0].Name
			isOwn := func(e ast.Expr) bool {
				x, sname, ok := sel(e)
				return ok && x == recv && sname == "BridgerAddress"
			}
			isInner := func(e ast.Expr) bool {
				if c, ok := e.(*ast.CallExpr); ok {
					if s, ok := c.Fun.(*ast.SelectorExpr); ok && s.Sel.Name == "GetBridgerAddress" {
						return true
					}
				}
				if s, ok := e.(*ast.SelectorExpr); ok && s.Sel.Name == "BridgerAddress" && !isOwn(e) {
					return true
				}
				return false
			}
			ast.Inspect(fd.Body, func(n ast.Node) bool {
				if b, ok := n.(*ast.BinaryExpr); ok && (b.Op == token.NEQ || b.Op == token.EQL) {
					if (isOwn(b.X) && isInner(b.Y)) || (isOwn(b.Y) && isInner(b.X)) {
						compares = true
					}
				}
				return true
			})
		}
	}
	if !seenMsgs {
		die("x/crosschain/types/msgs.go not found")
	}
	return unpacks, compares
}

// sigNormalisation: what <fn> (EthAddressFromSignature / TronAddressFromSignature) does to the signature before handing
// it to crypto.SigToPub: the minimum-length guard `if len(signature) < N { return ... }` and the statement(s) that
// write signature[64].  Recognised writers:
//
//	if signature[64] == a || signature[64] == b ... { signature[64] -= d }   -> (VSubIf [a; b; ...] d)
//	signature[64] %= m                                                      -> (VMod m)
//	(none)                                                                  -> VNone
//
// any other write to the signature slice is a hard error.  Returns (minlen, vnorm term).
func sigNormalisation(path, fn string) (int, string) {
	_, f := parseFile(path)
	fd := findFunc(f, "", fn)
	if fd == nil || fd.Body == nil || len(fd.Type.Params.List) != 2 || len(fd.Type.Params.List[1].Names) != 1 {
		die("%s: %s(hash, signature) not found", path, fn)
	}
	sig := fd.Type.Params.List[1].Names[0].Name
	isV := func(e ast.Expr) bool { // signature[64]
		ix, ok := e.(*ast.IndexExpr)
		if !ok {
			return false
		}
		id, ok := ix.X.(*ast.Ident)
		lit, ok2 := ix.Index.(*ast.BasicLit)
		return ok && ok2 && id.Name == sig && lit.Value == "64"
	}
	intLit := func(e ast.Expr) (int, bool) {
		l, ok := e.(*ast.BasicLit)
		if !ok || l.Kind != token.INT {
			return 0, false
		}
		n, err := strconv.Atoi(l.Value)
		return n, err == nil
	}
	minlen := -1
	norm := "VNone"
	seenRecover := false
	var eqVals func(e ast.Expr) ([]string, bool)
	eqVals = func(e ast.Expr) ([]string, bool) {
		b, ok := e.(*ast.BinaryExpr)
		if !ok {
			return nil, false
		}
		switch b.Op {
		case token.LOR:
			l, ok1 := eqVals(b.X)
			r, ok2 := eqVals(b.Y)
			return append(l, r...), ok1 && ok2
		case token.EQL:
			if n, ok := intLit(b.Y); ok && isV(b.X) {
				return []string{strconv.Itoa(n)}, true
			}
		}
		return nil, false
	}
	for _, st := range fd.Body.List {
		// does the statement write to the signature slice at all?
		writes := false
		ast.Inspect(st, func(n ast.Node) bool {
			switch x := n.(type) {
			case *ast.AssignStmt:
				for _, l := range x.Lhs {
					if ix, ok := l.(*ast.IndexExpr); ok {
						if id, ok := ix.X.(*ast.Ident); ok && id.Name == sig {
							writes = true
						}
					}
					if id, ok := l.(*ast.Ident); ok && id.Name == sig {
						writes = true
					}
				}
			case *ast.IncDecStmt:
				if ix, ok := x.X.(*ast.IndexExpr); ok {
					if id, ok := ix.X.(*ast.Ident); ok && id.Name == sig {
						writes = true
					}
				}
			case *ast.CallExpr:
				if p, sname, ok := sel(x.Fun); ok && p == "crypto" && sname == "SigToPub" {
					if len(x.Args) != 2 {
						die("%s: %s: crypto.SigToPub shape", path, fn)
					}
					if id, ok := x.Args[1].(*ast.Ident); !ok || id.Name != sig {
						die("%s: %s: crypto.SigToPub is not given the %s slice itself", path, fn, sig)
					}
					seenRecover = true
				}
			}
			return true
		})
		if ifs, ok := st.(*ast.IfStmt); ok && ifs.Init == nil && ifs.Else == nil {
			// length guard
			if b, ok := ifs.Cond.(*ast.BinaryExpr); ok && b.Op == token.LSS {
				if c, ok := b.X.(*ast.CallExpr); ok && len(c.Args) == 1 {
					if f, ok := c.Fun.(*ast.Ident); ok && f.Name == "len" {
						if a, ok := c.Args[0].(*ast.Ident); ok && a.Name == sig {
							if n, ok := intLit(b.Y); ok && len(ifs.Body.List) == 1 {
								if _, isRet := ifs.Body.List[0].(*ast.ReturnStmt); isRet && !seenRecover {
									minlen = n
									continue
								}
							}
						}
					}
				}
			}
			// if signature[64] == a || ... { signature[64] -= d }
			if vals, ok := eqVals(ifs.Cond); ok && len(ifs.Body.List) == 1 {
				if as, ok := ifs.Body.List[0].(*ast.AssignStmt); ok && as.Tok == token.SUB_ASSIGN && len(as.Lhs) == 1 && isV(as.Lhs[0]) {
					if d, ok := intLit(as.Rhs[0]); ok && norm == "VNone" && !seenRecover {
						norm = "(VSubIf [" + strings.Join(vals, "; ") + "] " + strconv.Itoa(d) + ")"
						continue
					}
				}
			}
		}
		if as, ok := st.(*ast.AssignStmt); ok && as.Tok == token.REM_ASSIGN && len(as.Lhs) == 1 && isV(as.Lhs[0]) {
			if m, ok := intLit(as.Rhs[0]); ok && m > 0 && norm == "VNone" && !seenRecover {
				norm = "(VMod " + strconv.Itoa(m) + ")"
				continue
			}
		}
		if writes {
			die("%s: %s: a write to the signature that the translator does not recognise (at %v)", path, fn, st.Pos())
		}
	}
	if minlen < 0 || !seenRecover {
		die("%s: %s: length guard `if len(%s) < N { return }` or crypto.SigToPub(..., %s) not found", path, fn, sig, sig)
	}
	return minlen, norm
}

// genesisOwnerByExternal: how InitGenesis (x/crosschain/keeper/genesis.go) finds the oracle an imported batch /
// oracle-set confirm belongs to: by comparing the confirm's BridgerAddress with every oracle record's (false, the
// tree as it is) or through GetOracleAddrByExternalAddr(ctx, confirm.ExternalAddress) (true).  Mixed shapes fail.
func genesisOwnerByExternal() bool {
	_, f := parseFile(filepath.Join(repo(), "x/crosschain/keeper/genesis.go"))
	fd := findFunc(f, "", "InitGenesis")
	if fd == nil || fd.Body == nil {
		die("genesis.go: InitGenesis not found")
	}
	byExt, byBridger := 0, 0
	ast.Inspect(fd.Body, func(n ast.Node) bool {
		switch x := n.(type) {
		case *ast.CallExpr:
			if s, ok := x.Fun.(*ast.SelectorExpr); ok && s.Sel.Name == "GetOracleAddrByExternalAddr" && len(x.Args) == 2 {
				if a, ok := x.Args[1].(*ast.SelectorExpr); ok && a.Sel.Name == "ExternalAddress" {
					byExt++
				}
			}
		case *ast.BinaryExpr:
			if x.Op == token.EQL || x.Op == token.NEQ {
				l, lok := x.X.(*ast.SelectorExpr)
				r, rok := x.Y.(*ast.SelectorExpr)
				if lok && rok && l.Sel.Name == "BridgerAddress" && r.Sel.Name == "BridgerAddress" {
					byBridger++
				}
			}
		}
		return true
	})
	switch {
	case byExt == 2 && byBridger == 0:
		return true
	case byExt == 0 && byBridger == 2:
		return false
	}
	die("genesis.go: InitGenesis: cannot tell how the owner of imported confirms is resolved (%d external-address look-ups, %d bridger comparisons)", byExt, byBridger)
	return false
}

// ---------------------------------------------------------------- Solidity side

// stripComments removes // and /* */ comments, leaving string literals intact.
func stripComments(s string) string {
	var b strings.Builder
	for i := 0; i < len(s); {
		switch {
		case s[i] == '"' || s[i] == '\'':
			q := s[i]
			j := i + 1
			for j < len(s) && s[j] != q {
				if s[j] == '\\' {
					j++
				}
				j++
			}
			if j >= len(s) {
				die("FxBridgeLogic.sol: unterminated string literal")
			}
			b.WriteString(s[i : j+1])
			i = j + 1
		case strings.HasPrefix(s[i:], "//"):
			for i < len(s) && s[i] != '\n' {
				i++
			}
		case strings.HasPrefix(s[i:], "/*"):
			j := strings.Index(s[i+2:], "*/")
			if j < 0 {
				die("FxBridgeLogic.sol: unterminated comment")
			}
			i += j + 4
			b.WriteByte(' ')
		default:
			b.WriteByte(s[i])
			i++
		}
	}
	return b.String()
}

// matching returns the index just after the bracket that closes the one at s[open]
func matching(s string, open int) int {
	pairs := map[byte]byte{'(': ')', '{': '}', '[': ']'}
	closeCh := pairs[s[open]]
	depth := 0
	for i := open; i < len(s); i++ {
		switch s[i] {
		case '"', '\'':
			q := s[i]
			i++
			for i < len(s) && s[i] != q {
				if s[i] == '\\' {
					i++
				}
				i++
			}
		case s[open]:
			depth++
		case closeCh:
			depth--
			if depth == 0 {
				return i + 1
			}
		}
	}
	die("FxBridgeLogic.sol: unbalanced %c", s[open])
	return -1
}

func splitTop(s string) []string {
	var out []string
	depth, start := 0, 0
	for i := 0; i < len(s); i++ {
		switch s[i] {
		case '(', '[', '{':
			depth++
		case ')', ']', '}':
			depth--
		case '"', '\'':
			q := s[i]
			i++
			for i < len(s) && s[i] != q {
				if s[i] == '\\' {
					i++
				}
				i++
			}
		case ',':
			if depth == 0 {
				out = append(out, strings.TrimSpace(s[start:i]))
				start = i + 1
			}
		}
	}
	if strings.TrimSpace(s[start:]) != "" {
		out = append(out, strings.TrimSpace(s[start:]))
	}
	return out
}

var wsRe = regexp.MustCompile(`\s+`)

func squash(s string) string { return strings.TrimSpace(wsRe.ReplaceAllString(s, " ")) }

type solFn struct {
	name   string
	params map[string]string // name -> type (without data location)
	body   string
}

var locRe = regexp.MustCompile(`\b(memory|calldata|storage|payable)\b`)

func declType(decl string) (typ, name string) {
	d := squash(locRe.ReplaceAllString(decl, " "))
	i := strings.LastIndex(d, " ")
	if i < 0 {
		die("FxBridgeLogic.sol: cannot read declaration %q", decl)
	}
	return strings.ReplaceAll(strings.TrimSpace(d[:i]), " ", ""), strings.TrimSpace(d[i+1:])
}

func solFunction(src, name string) solFn {
	re := regexp.MustCompile(`\bfunction\s+` + regexp.QuoteMeta(name) + `\s*\(`)
	locs := re.FindAllStringIndex(src, -1)
	if len(locs) != 1 {
		die("FxBridgeLogic.sol: expected exactly one function %s, found %d", name, len(locs))
	}
	open := locs[0][1] - 1
	end := matching(src, open)
	fn := solFn{name: name, params: map[string]string{}}
	for _, p := range splitTop(src[open+1 : end-1]) {
		t, n := declType(p)
		fn.params[n] = t
	}
	bopen := strings.Index(src[end:], "{")
	if bopen < 0 {
		die("FxBridgeLogic.sol: function %s has no body", name)
	}
	bopen += end
	fn.body = src[bopen:matching(src, bopen)]
	return fn
}

type solCtx struct {
	src     string
	structs map[string]map[string]string // struct -> field -> type
	state   map[string]string            // state variable -> type
}

func newSolCtx(src string) *solCtx {
	c := &solCtx{src: src, structs: map[string]map[string]string{}, state: map[string]string{}}
	for _, m := range regexp.MustCompile(`\bstruct\s+(\w+)\s*\{`).FindAllStringSubmatchIndex(src, -1) {
		name := src[m[2]:m[3]]
		open := m[1] - 1
		body := src[open+1 : matching(src, open)-1]
		fields := map[string]string{}
		for _, f := range strings.Split(body, ";") {
			if squash(f) == "" {
				continue
			}
			t, n := declType(f)
			fields[n] = t
		}
		c.structs[name] = fields
	}
	// state variables: `type [public|private|internal] name;` at contract level (depth 1)
	depth := 0
	start := 0
	for i := 0; i < len(src); i++ {
		switch src[i] {
		case '{':
			depth++
			start = i + 1
		case '}':
			depth--
			start = i + 1
		case ';':
			if depth == 1 {
				d := squash(src[start:i])
				if m := regexp.MustCompile(`^([\w\[\]]+)\s+(?:public\s+|private\s+|internal\s+)?(\w+)$`).FindStringSubmatch(d); m != nil {
					c.state[m[2]] = m[1]
				}
			}
			start = i + 1
		}
	}
	return c
}

var hexLit32 = regexp.MustCompile(`^0x[0-9a-fA-F]{64}$`)
var identRe = regexp.MustCompile(`^\w+$`)
var memberRe = regexp.MustCompile(`^(\w+)\.(\w+)$`)
var indexRe = regexp.MustCompile(`^(\w+)\[(\d+)\]$`)
var fixedArr = regexp.MustCompile(`^(.+)\[\d+\]$`)

func hexToDec(h string) string {
	v, ok := new(big.Int).SetString(h[2:], 16)
	if !ok {
		die("bad hex literal %s", h)
	}
	return v.String()
}

// one abi.encode argument -> "(sexpr, abity)"
func (c *solCtx) arg(fn solFn, a string) string {
	a = squash(a)
	switch {
	case hexLit32.MatchString(a):
		// a number literal: Solidity gives it the smallest uint type that holds it; 64 hex digits = uint256
		return "(SLit " + hexToDec(a) + ", " + abity("uint256") + ")"
	case identRe.MatchString(a):
		if t, ok := fn.params[a]; ok {
			return "(SVar " + coqStr(a) + ", " + abity(t) + ")"
		}
		// local constant: `<type> a = 0x...;`
		if m := regexp.MustCompile(`([\w\[\]]+)\s+` + regexp.QuoteMeta(a) + `\s*=\s*(0x[0-9a-fA-F]{64})\s*;`).FindStringSubmatch(fn.body); m != nil {
			if n := len(regexp.MustCompile(`\b`+regexp.QuoteMeta(a)+`\s*=[^=]`).FindAllString(fn.body, -1)); n != 1 {
				die("FxBridgeLogic.sol: %s: local %s assigned %d times", fn.name, a, n)
			}
			return "(SLit " + hexToDec(m[2]) + ", " + abity(m[1]) + ")"
		}
		if t, ok := c.state[a]; ok {
			return "(SVar " + coqStr(a) + ", " + abity(t) + ")"
		}
	case memberRe.MatchString(a):
		m := memberRe.FindStringSubmatch(a)
		if st, ok := fn.params[m[1]]; ok {
			if fields, ok := c.structs[st]; ok {
				if t, ok := fields[m[2]]; ok {
					return "(SVar " + coqStr(a) + ", " + abity(t) + ")"
				}
			}
		}
	case indexRe.MatchString(a):
		m := indexRe.FindStringSubmatch(a)
		if t, ok := fn.params[m[1]]; ok {
			if e := fixedArr.FindStringSubmatch(t); e != nil {
				return "(SVar " + coqStr(a) + ", " + abity(e[1]) + ")"
			}
		}
	}
	die("FxBridgeLogic.sol: %s: cannot resolve the type of abi.encode argument %q", fn.name, a)
	return ""
}

// the single abi.encode(...) of fn and a check that its result is what gets keccak256-ed
func (c *solCtx) encodeTable(fn solFn) table {
	re := regexp.MustCompile(`\babi\.encode\s*\(`)
	locs := re.FindAllStringIndex(fn.body, -1)
	if len(locs) != 1 {
		die("FxBridgeLogic.sol: %s: expected exactly one abi.encode(, found %d", fn.name, len(locs))
	}
	open := locs[0][1] - 1
	end := matching(fn.body, open)
	before := squash(fn.body[:locs[0][0]])
	if !strings.HasSuffix(before, "keccak256(") {
		// `bytes memory v = abi.encode(...); ... keccak256(v)`
		m := regexp.MustCompile(`bytes memory (\w+) =$`).FindStringSubmatch(before)
		if m == nil || !regexp.MustCompile(`\bkeccak256\s*\(\s*`+m[1]+`\s*\)`).MatchString(fn.body[end:]) {
			die("FxBridgeLogic.sol: %s: the abi.encode(...) result is not what is passed to keccak256", fn.name)
		}
	}
	t := table{method: fn.name}
	for _, a := range splitTop(fn.body[open+1 : end-1]) {
		t.rows = append(t.rows, c.arg(fn, a))
	}
	return t
}

// call-site facts the binding in M_Confirm.sol_binding relies on
func (c *solCtx) checkCallSites() {
	sb := solFunction(c.src, "submitBatch")
	if !regexp.MustCompile(`state_lastBatchNonces\s*\[\s*_tokenContract\s*\]\s*<\s*_nonceArray\s*\[\s*1\s*\]`).MatchString(sb.body) ||
		!regexp.MustCompile(`block\.number\s*<\s*_batchTimeout`).MatchString(sb.body) {
		die("FxBridgeLogic.sol: submitBatch no longer treats _nonceArray[1] as the batch nonce / _batchTimeout as the timeout")
	}
	if !regexp.MustCompile(`makeCheckpoint\s*\(\s*_currentOracles\s*,\s*_currentPowers\s*,\s*_nonceArray\s*\[\s*0\s*\]\s*,\s*state_fxBridgeId\s*\)`).MatchString(sb.body) {
		die("FxBridgeLogic.sol: submitBatch no longer calls makeCheckpoint(_currentOracles, _currentPowers, _nonceArray[0], state_fxBridgeId)")
	}
	vb := solFunction(c.src, "verifySubmitBridgeCall")
	if !regexp.MustCompile(`bridgeCallSigHash\s*\(\s*_input\s*,\s*_nonceArray\s*\[\s*1\s*\]\s*\)`).MatchString(vb.body) {
		die("FxBridgeLogic.sol: verifySubmitBridgeCall no longer hashes bridgeCallSigHash(_input, _nonceArray[1])")
	}
	mk := solFunction(c.src, "makeCheckpoint")
	want := []string{"_oracles", "_powers", "_oracleSetNonce", "_fxBridgeId"}
	for _, w := range want {
		if _, ok := mk.params[w]; !ok {
			die("FxBridgeLogic.sol: makeCheckpoint lost parameter %s", w)
		}
	}
}

func (c *solCtx) sigPrefix() string {
	vs := solFunction(c.src, "verifySig")
	m := regexp.MustCompile(`abi\.encodePacked\s*\(\s*"((?:[^"\\]|\\.)*)"\s*,\s*_theHash\s*\)`).FindStringSubmatch(vs.body)
	if m == nil {
		die("FxBridgeLogic.sol: verifySig: abi.encodePacked(\"<prefix>\", _theHash) not found")
	}
	if !regexp.MustCompile(`_signer\s*==\s*ecrecover\s*\(\s*messageDigest\s*,\s*_v\s*,\s*_r\s*,\s*_s\s*\)`).MatchString(vs.body) {
		die("FxBridgeLogic.sol: verifySig no longer compares _signer with ecrecover(messageDigest, _v, _r, _s)")
	}
	// Solidity escapes used here (\xNN, \n) are valid Go escapes
	s, err := strconv.Unquote(`"` + m[1] + `"`)
	if err != nil {
		die("FxBridgeLogic.sol: verifySig prefix: %v", err)
	}
	return s
}

// ---------------------------------------------------------------- main

func main() {
	abi := abiInputs()
	fset, tf := parseFile(filepath.Join(repo(), "x/crosschain/types/types.go"))
	goT := []table{
		goEthTable(fset, tf, "OracleSet", abi),
		goEthTable(fset, tf, "OutgoingTxBatch", abi),
		goEthTable(fset, tf, "OutgoingBridgeCall", abi),
	}
	tfset, trf := parseFile(filepath.Join(repo(), "x/tron/types/checkpoint.go"))
	tronT := []table{
		goTronTable(tfset, trf, "GetCheckpointOracleSet"),
		goTronTable(tfset, trf, "GetCheckpointConfirmBatch"),
		goTronTable(tfset, trf, "GetCheckpointBridgeCall"),
	}
	raw, err := os.ReadFile(filepath.Join(repo(), "solidity/contracts/bridge/FxBridgeLogic.sol"))
	if err != nil {
		die("%v", err)
	}
	ctx := newSolCtx(stripComments(string(raw)))
	ctx.checkCallSites()
	solT := []table{
		ctx.encodeTable(solFunction(ctx.src, "makeCheckpoint")),
		ctx.encodeTable(solFunction(ctx.src, "submitBatch")),
		ctx.encodeTable(solFunction(ctx.src, "bridgeCallSigHash")),
	}
	ethPrefix := goConstString(filepath.Join(repo(), "x/crosschain/types/eth_signer.go"), "signaturePrefix")
	tronPrefix := goConstString(filepath.Join(repo(), "x/tron/types/signer.go"), "tronSignaturePrefix")
	solPrefix := ctx.sigPrefix()

	var b strings.Builder
	b.WriteString("(* generated by harness/gen_c12 from x/crosschain/types/types.go, contract/IFxBridgeLogic.go,\n")
	b.WriteString("   x/tron/types/checkpoint.go, the signer files and solidity/contracts/bridge/FxBridgeLogic.sol; do not edit *)\n")
	b.WriteString("From Coq Require Import ZArith List String.\nFrom FxV Require Import model.M_CkDesc.\nImport ListNotations.\nOpen Scope Z_scope.\nOpen Scope string_scope.\n\n")
	kinds := []string{"oracleset", "batch", "call"}
	emit := func(prefix, ty string, ts []table) {
		for i, t := range ts {
			fmt.Fprintf(&b, "(* %s *)\nDefinition %s_%s : list %s :=\n  %s.\n\n", t.method, prefix, kinds[i], ty, t.coq())
		}
		fmt.Fprintf(&b, "Definition %s_table (k : ckind) : list %s :=\n  match k with KOracleSet => %s_oracleset | KBatch => %s_batch | KCall => %s_call end.\n\n", prefix, ty, prefix, prefix, prefix)
	}
	emit("go", "garg", goT)
	fmt.Fprintf(&b, "Definition go_methods : list string := [%s; %s; %s].\n", coqStr(goT[0].method), coqStr(goT[1].method), coqStr(goT[2].method))
	fmt.Fprintf(&b, "(* bytes dropped from the Pack result before hashing (the method selector) *)\nDefinition go_strip : list Z := [%d; %d; %d].\n\n", goT[0].strip, goT[1].strip, goT[2].strip)
	emit("tron", "garg", tronT)
	emit("sol", "sarg", solT)
	fmt.Fprintf(&b, "(* signed-message prefixes *)\nDefinition go_sig_prefix : list Z := %s.\nDefinition tron_sig_prefix : list Z := %s.\nDefinition sol_sig_prefix : list Z := %s.\n",
		coqBytes(ethPrefix), coqBytes(tronPrefix), coqBytes(solPrefix))

	unpacks, compares := msgConfirmFacts()
	fmt.Fprintf(&b, "\n(* x/crosschain/types: MsgConfirm implements UnpackInterfaces / has a ValidateBasic comparing the two bridger addresses *)\n")
	fmt.Fprintf(&b, "Definition msgconfirm_unpacks : bool := %v.\nDefinition msgconfirm_vb_compares_bridger : bool := %v.\n", unpacks, compares)

	ethMin, ethNorm := sigNormalisation(filepath.Join(repo(), "x/crosschain/types/eth_signer.go"), "EthAddressFromSignature")
	tronMin, tronNorm := sigNormalisation(filepath.Join(repo(), "x/tron/types/signer.go"), "TronAddressFromSignature")
	fmt.Fprintf(&b, "\n(* EthAddressFromSignature / TronAddressFromSignature: minimum length, and what is done to byte 64 before crypto.SigToPub *)\n")
	fmt.Fprintf(&b, "Definition eth_sig_minlen : Z := %d.\nDefinition eth_vnorm : vnorm := %s.\nDefinition tron_sig_minlen : Z := %d.\nDefinition tron_vnorm : vnorm := %s.\n", ethMin, ethNorm, tronMin, tronNorm)

	fmt.Fprintf(&b, "\n(* x/crosschain/keeper/genesis.go InitGenesis: the owner of an imported confirm is looked up by its external address (true) or by its bridger address (false) *)\n")
	fmt.Fprintf(&b, "Definition genesis_confirm_owner_by_external : bool := %v.\n", genesisOwnerByExternal())

	out := os.Getenv("VERIF_OUT")
	if out == "" {
		out = "."
	}
	if err := os.MkdirAll(out, 0o755); err != nil {
		die("%v", err)
	}
	if err := os.WriteFile(filepath.Join(out, "Gen_Checkpoint.v"), []byte(b.String()), 0o644); err != nil {
		die("%v", err)
	}
}
