// gen_c15: translator for property C15.  Reads the current tree's
//
//	x/gov/abci.go, x/gov/keeper/{deposit,proposal,tally}.go
//
// with go/ast and writes coq/gen/Gen_GovShape.v: the facts of model.M_GovShape.gov_shape —
//   - EndBlocker (active queue): order tally / payout / dequeue / outcome / save, the payout guard,
//     the dequeue key, where the cache branch is opened, on which context the handlers run, whether
//     `err` is assigned or shadowed in the loop, where writeCache is called, where the statuses are
//     set, how an expedited proposal is re-queued;
//   - AddDeposit: order of transfer / total / save / minimum / activation / record, and the returns
//     with a nil error between the transfer and the record write;
//   - ActivateVotingPeriod: the queue keys, and whether the inactive entry is removed unconditionally;
//   - the expression that keys the custom-parameter lookups;
//   - Tally: order of the early-return checks;
//   - checkProposalMsgs (msg_server.go): which expression is compared between consecutive messages;
//   - GetCustomMsgQuorum / GetCustomMsgVotingPeriod: stored field if an entry exists, default only if absent;
//   - EndBlocker's ErrEncoding branches: is the queue entry removed by the key the walk stands on.
//
// Fails loudly when a shape it expects is gone.
package main

import (
	"bytes"
	"fmt"
	"go/ast"
	"go/parser"
	"go/printer"
	"go/token"
	"os"
	"path/filepath"
	"strings"
)

var fset = token.NewFileSet()

func die(format string, a ...interface{}) {
	fmt.Fprintf(os.Stderr, "gen_c15: "+format+"\n", a...)
	os.Exit(1)
}

func str(n ast.Node) string {
	var b bytes.Buffer
	if err := printer.Fprint(&b, fset, n); err != nil {
		die("print: %v", err)
	}
	return strings.Join(strings.Fields(b.String()), " ")
}

func parse(path string) *ast.File {
	f, err := parser.ParseFile(fset, path, nil, 0)
	if err != nil {
		die("parse %s: %v", path, err)
	}
	return f
}

func funcDecl(f *ast.File, name string) *ast.FuncDecl {
	for _, d := range f.Decls {
		if fd, ok := d.(*ast.FuncDecl); ok && fd.Name.Name == name && fd.Body != nil {
			return fd
		}
	}
	die("function %s not found", name)
	return nil
}

// calls returns the printed callee expressions of all calls under n
func calls(n ast.Node) []string {
	var r []string
	ast.Inspect(n, func(x ast.Node) bool {
		if c, ok := x.(*ast.CallExpr); ok {
			r = append(r, str(c.Fun))
		}
		return true
	})
	return r
}

func hasCall(n ast.Node, suffix string) bool {
	for _, c := range calls(n) {
		if strings.HasSuffix(c, suffix) {
			return true
		}
	}
	return false
}

func countCall(n ast.Node, name string) int {
	k := 0
	for _, c := range calls(n) {
		if c == name || strings.HasSuffix(c, "."+name) {
			k++
		}
	}
	return k
}

func findCall(n ast.Node, suffix string) *ast.CallExpr {
	var r *ast.CallExpr
	ast.Inspect(n, func(x ast.Node) bool {
		if c, ok := x.(*ast.CallExpr); ok && r == nil && strings.HasSuffix(str(c.Fun), suffix) {
			r = c
		}
		return r == nil
	})
	return r
}

func b(v bool) string {
	if v {
		return "true"
	}
	return "false"
}

// assignsStatus: does n contain `proposal.Status = v1.<name>` ?
func assignsStatus(n ast.Node, name string) bool {
	found := false
	ast.Inspect(n, func(x ast.Node) bool {
		if a, ok := x.(*ast.AssignStmt); ok && len(a.Lhs) == 1 && len(a.Rhs) == 1 &&
			str(a.Lhs[0]) == "proposal.Status" && strings.HasSuffix(str(a.Rhs[0]), "."+name) {
			found = true
		}
		return true
	})
	return found
}

func main() {
	repo := os.Getenv("VERIF_REPO")
	if repo == "" {
		repo = "/repo"
	}
	out := os.Getenv("VERIF_OUT")
	if out == "" {
		out = "."
	}
	abci := parse(filepath.Join(repo, "x/gov/abci.go"))
	deposit := parse(filepath.Join(repo, "x/gov/keeper/deposit.go"))
	proposal := parse(filepath.Join(repo, "x/gov/keeper/proposal.go"))
	tally := parse(filepath.Join(repo, "x/gov/keeper/tally.go"))
	msgServer := parse(filepath.Join(repo, "x/gov/keeper/msg_server.go"))

	facts := map[string]string{}

	// ---------------------------------------------------------------- EndBlocker, active queue
	eb := funcDecl(abci, "EndBlocker")
	var active *ast.FuncLit
	ast.Inspect(eb, func(x ast.Node) bool {
		if c, ok := x.(*ast.CallExpr); ok && str(c.Fun) == "keeper.ActiveProposalsQueue.Walk" {
			if len(c.Args) != 3 {
				die("ActiveProposalsQueue.Walk: expected 3 arguments")
			}
			fl, ok := c.Args[2].(*ast.FuncLit)
			if !ok {
				die("ActiveProposalsQueue.Walk: callback is not a function literal")
			}
			active = fl
		}
		return true
	})
	if active == nil {
		die("EndBlocker: no keeper.ActiveProposalsQueue.Walk")
	}
	var order []string
	var outcome *ast.SwitchStmt
	guardOK, dequeueKey := false, false
	for _, st := range active.Body.List {
		switch s := st.(type) {
		case *ast.AssignStmt:
			switch {
			case hasCall(s, "keeper.Tally"):
				order = append(order, "EB_Tally")
			case len(s.Lhs) == 1 && str(s.Lhs[0]) == "proposal.FinalTallyResult":
				order = append(order, "EB_SetTally")
			case hasCall(s, "keeper.SetProposal"):
				order = append(order, "EB_Save")
			case hasCall(s, "ActiveProposalsQueue.Remove"):
				order = append(order, "EB_Dequeue")
				dequeueKey = str(findCall(s, "ActiveProposalsQueue.Remove").Args[1]) == "collections.Join(*proposal.VotingEndTime, proposal.Id)"
			}
		case *ast.IfStmt:
			switch {
			case hasCall(s.Body, "DeleteAndBurnDeposits") || hasCall(s.Body, "RefundAndDeleteDeposits"):
				if str(s.Cond) == "err != nil" {
					continue // the decoding-error path (failUnsupportedProposal)
				}
				order = append(order, "EB_Payout")
				guardOK = str(s.Cond) == "!(proposal.Expedited && !passes)"
			case s.Init != nil && hasCall(s.Init, "ActiveProposalsQueue.Remove"):
				order = append(order, "EB_Dequeue")
				dequeueKey = str(findCall(s.Init, "ActiveProposalsQueue.Remove").Args[1]) == "collections.Join(*proposal.VotingEndTime, proposal.Id)"
			case s.Init != nil && hasCall(s.Init, "keeper.SetProposal"):
				order = append(order, "EB_Save")
			}
		case *ast.SwitchStmt:
			order = append(order, "EB_Outcome")
			outcome = s
		}
	}
	if outcome == nil {
		die("EndBlocker: outcome switch not found")
	}
	facts["sh_eb_order"] = "[" + strings.Join(order, "; ") + "]"
	facts["sh_payout_guard"] = b(guardOK)
	facts["sh_dequeue_key_voting_end"] = b(dequeueKey)

	var passCase, expCase *ast.CaseClause
	for _, c := range outcome.Body.List {
		cc := c.(*ast.CaseClause)
		if len(cc.List) == 1 && str(cc.List[0]) == "passes" {
			passCase = cc
		}
		if len(cc.List) == 1 && str(cc.List[0]) == "proposal.Expedited" {
			expCase = cc
		}
	}
	if passCase == nil || expCase == nil {
		die("EndBlocker: `case passes` / `case proposal.Expedited` not found")
	}
	cacheIdx, loopIdx := -1, -1
	cacheName, writeName := "", ""
	var loop *ast.RangeStmt
	var after *ast.IfStmt
	for i, st := range passCase.Body {
		if a, ok := st.(*ast.AssignStmt); ok && len(a.Rhs) == 1 && strings.HasSuffix(str(a.Rhs[0]), ".CacheContext()") && len(a.Lhs) == 2 && cacheIdx < 0 {
			cacheIdx, cacheName, writeName = i, str(a.Lhs[0]), str(a.Lhs[1])
		}
		if r, ok := st.(*ast.RangeStmt); ok && hasCall(r.Body, "safeExecuteHandler") {
			loopIdx, loop = i, r
		}
		if f, ok := st.(*ast.IfStmt); ok && loop != nil && after == nil && str(f.Cond) == "err == nil" {
			after = f
		}
	}
	if loop == nil {
		die("EndBlocker: message loop (range ... safeExecuteHandler) not found")
	}
	if after == nil {
		die("EndBlocker: `if err == nil` after the message loop not found")
	}
	if writeName == "" {
		// the branch may be opened inside the loop only
		ast.Inspect(loop.Body, func(x ast.Node) bool {
			if a, ok := x.(*ast.AssignStmt); ok && len(a.Rhs) == 1 && strings.HasSuffix(str(a.Rhs[0]), ".CacheContext()") && len(a.Lhs) == 2 {
				cacheName, writeName = str(a.Lhs[0]), str(a.Lhs[1])
			}
			return true
		})
	}
	if writeName == "" {
		writeName, cacheName = "writeCache", "cacheCtx"
	}
	facts["sh_cache_before_loop"] = b(cacheIdx >= 0 && cacheIdx < loopIdx)
	facts["sh_cache_in_loop"] = fmt.Sprint(countCall(loop.Body, "CacheContext"))
	execOnCache, plain, brk := false, false, false
	for i, st := range loop.Body.List {
		a, ok := st.(*ast.AssignStmt)
		if !ok || !hasCall(a, "safeExecuteHandler") {
			continue
		}
		call := findCall(a, "safeExecuteHandler")
		execOnCache = len(call.Args) > 0 && str(call.Args[0]) == cacheName && cacheIdx >= 0
		plain = a.Tok == token.ASSIGN
		if i+1 < len(loop.Body.List) {
			if f, ok := loop.Body.List[i+1].(*ast.IfStmt); ok && str(f.Cond) == "err != nil" && len(f.Body.List) == 1 {
				if br, ok := f.Body.List[0].(*ast.BranchStmt); ok && br.Tok == token.BREAK {
					brk = true
				}
			}
		}
	}
	facts["sh_exec_on_cache"] = b(execOnCache)
	facts["sh_err_plain_assign"] = b(plain)
	facts["sh_break_on_err"] = b(brk)
	total := 0
	for _, st := range passCase.Body {
		total += countCall(st, writeName)
	}
	inLoop, inOK := countCall(loop.Body, writeName), countCall(after.Body, writeName)
	facts["sh_write_in_loop"] = fmt.Sprint(inLoop)
	facts["sh_write_in_ok_branch"] = fmt.Sprint(inOK)
	facts["sh_write_elsewhere"] = fmt.Sprint(total - inLoop - inOK)
	passedElsewhere := false
	for _, st := range passCase.Body {
		if st != ast.Stmt(after) && assignsStatus(st, "StatusPassed") {
			passedElsewhere = true
		}
	}
	facts["sh_passed_in_ok_branch"] = b(assignsStatus(after.Body, "StatusPassed") && !passedElsewhere && (after.Else == nil || !assignsStatus(after.Else, "StatusPassed")))
	facts["sh_failed_in_else_branch"] = b(after.Else != nil && assignsStatus(after.Else, "StatusFailed"))

	reassign, requeue, periodDefault := -1, -1, false
	for i, st := range expCase.Body {
		if a, ok := st.(*ast.AssignStmt); ok && len(a.Lhs) == 1 {
			if str(a.Lhs[0]) == "proposal.VotingEndTime" {
				reassign = i
			}
			if str(a.Lhs[0]) == "endTime" && str(a.Rhs[0]) == "proposal.VotingStartTime.Add(*params.VotingPeriod)" {
				periodDefault = true
			}
		}
		if c := findCall(st, "ActiveProposalsQueue.Set"); c != nil && len(c.Args) == 3 &&
			str(c.Args[1]) == "collections.Join(*proposal.VotingEndTime, proposal.Id)" {
			requeue = i
		}
	}
	facts["sh_conv_requeue_after_reassign"] = b(reassign >= 0 && requeue > reassign)
	facts["sh_conv_period_default"] = b(periodDefault)

	// ---------------------------------------------------------------- AddDeposit
	ad := funcDecl(deposit, "AddDeposit")
	var dorder []string
	var sendPos, recPos token.Pos
	for _, st := range ad.Body.List {
		switch {
		case hasCall(st, "SendCoinsFromAccountToModule"):
			dorder = append(dorder, "D_Send")
			sendPos = st.End()
		case func() bool {
			a, ok := st.(*ast.AssignStmt)
			return ok && len(a.Lhs) == 1 && str(a.Lhs[0]) == "proposal.TotalDeposit"
		}():
			dorder = append(dorder, "D_Total")
		case hasCall(st, "ActivateVotingPeriod"):
			dorder = append(dorder, "D_Activate")
		case hasCall(st, "keeper.SetProposal"):
			dorder = append(dorder, "D_Save")
		case hasCall(st, "GetMinDepositAmountFromProposalMsgs"):
			dorder = append(dorder, "D_MinReq")
		case hasCall(st, "keeper.Deposits.Get"):
			dorder = append(dorder, "D_GetRecord")
		case hasCall(st, "AfterProposalDeposit"):
			dorder = append(dorder, "D_Hook")
		case hasCall(st, "keeper.SetDeposit"):
			dorder = append(dorder, "D_SetRecord")
			recPos = st.Pos()
		}
	}
	if sendPos == 0 || recPos == 0 {
		die("AddDeposit: bank transfer or SetDeposit not found at the top level")
	}
	facts["sh_dep_order"] = "[" + strings.Join(dorder, "; ") + "]"
	okReturns := 0
	ast.Inspect(ad.Body, func(x ast.Node) bool {
		if r, ok := x.(*ast.ReturnStmt); ok && r.Pos() > sendPos && r.Pos() < recPos && len(r.Results) > 0 {
			if str(r.Results[len(r.Results)-1]) == "nil" {
				okReturns++
			}
		}
		return true
	})
	facts["sh_dep_ok_returns_before_record"] = fmt.Sprint(okReturns)

	// ---------------------------------------------------------------- ActivateVotingPeriod
	av := funcDecl(proposal, "ActivateVotingPeriod")
	uncond, inKey, actKey := false, false, false
	for _, st := range av.Body.List {
		switch s := st.(type) {
		case *ast.AssignStmt:
			if c := findCall(s, "InactiveProposalsQueue.Remove"); c != nil {
				uncond = true
				inKey = str(c.Args[1]) == "collections.Join(*proposal.DepositEndTime, proposal.Id)"
			}
		case *ast.IfStmt:
			if s.Init != nil {
				if c := findCall(s.Init, "InactiveProposalsQueue.Remove"); c != nil {
					uncond = true
					inKey = str(c.Args[1]) == "collections.Join(*proposal.DepositEndTime, proposal.Id)"
				}
			}
			if c := findCall(s.Body, "InactiveProposalsQueue.Remove"); c != nil {
				uncond = false // nested under a condition
				inKey = str(c.Args[1]) == "collections.Join(*proposal.DepositEndTime, proposal.Id)"
			}
		}
		if c := findCall(st, "ActiveProposalsQueue.Set"); c != nil && len(c.Args) == 3 {
			actKey = str(c.Args[1]) == "collections.Join(*proposal.VotingEndTime, proposal.Id)"
		}
	}
	if findCall(av.Body, "InactiveProposalsQueue.Remove") == nil {
		die("ActivateVotingPeriod: no InactiveProposalsQueue.Remove")
	}
	facts["sh_act_inactive_remove_unconditional"] = b(uncond)
	facts["sh_act_inactive_key_deposit_end"] = b(inKey)
	facts["sh_act_active_key_voting_end"] = b(actKey)

	// ---------------------------------------------------------------- lookup keys
	keyKind := func(fd *ast.FuncDecl, pick func(loopVar string, body *ast.BlockStmt) ast.Expr) string {
		// what the loop ranges over: proposal.GetMessages() ([]*Any) directly or through a variable
		src := map[string]string{}
		ast.Inspect(fd.Body, func(x ast.Node) bool {
			if a, ok := x.(*ast.AssignStmt); ok && len(a.Lhs) == 1 && len(a.Rhs) == 1 {
				src[str(a.Lhs[0])] = str(a.Rhs[0])
			}
			return true
		})
		var res string
		ast.Inspect(fd.Body, func(x ast.Node) bool {
			r, ok := x.(*ast.RangeStmt)
			if !ok || res != "" || r.Value == nil {
				return true
			}
			over := str(r.X)
			if v, ok := src[over]; ok {
				over = v
			}
			lv := str(r.Value)
			e := pick(lv, r.Body)
			if e == nil {
				return true
			}
			es := str(e)
			switch {
			case es == lv+".TypeUrl" && strings.HasSuffix(over, ".GetMessages()"):
				res = "KTypeUrl"
			case es == "sdk.MsgTypeURL("+lv+")" && strings.HasSuffix(over, ".GetMessages()"):
				res = "KAnyName"
			case es == "sdk.MsgTypeURL("+lv+")" && strings.HasSuffix(over, ".GetMsgs()"):
				res = "KTypeUrl"
			default:
				die("%s: unrecognized key expression %q over %q", fd.Name.Name, es, over)
			}
			return true
		})
		if res == "" {
			die("%s: key expression not found", fd.Name.Name)
		}
		return res
	}
	facts["sh_egf_key"] = keyKind(funcDecl(deposit, "GetMinDepositAmountFromProposalMsgs"), func(lv string, body *ast.BlockStmt) ast.Expr {
		if c := findCall(body, "strings.EqualFold"); c != nil && len(c.Args) == 2 {
			return c.Args[0]
		}
		return nil
	})
	facts["sh_type_key"] = keyKind(funcDecl(proposal, "getProposalMsgType"), func(lv string, body *ast.BlockStmt) ast.Expr {
		for _, st := range body.List {
			if r, ok := st.(*ast.ReturnStmt); ok && len(r.Results) == 1 {
				return r.Results[0]
			}
		}
		return nil
	})

	// ---------------------------------------------------------------- Tally
	tl := funcDecl(tally, "Tally")
	var checks []string
	for _, st := range tl.Body.List {
		f, ok := st.(*ast.IfStmt)
		if !ok || len(f.Body.List) == 0 {
			continue
		}
		if _, ok := f.Body.List[len(f.Body.List)-1].(*ast.ReturnStmt); !ok {
			continue
		}
		c := str(f.Cond)
		switch {
		case c == "err != nil":
		case c == "totalBonded.IsZero()":
			checks = append(checks, "TC_NoBonded")
		case c == "percentVoting.LT(quorum)":
			checks = append(checks, "TC_Quorum")
		case strings.Contains(c, "results[v1.OptionAbstain]") && strings.Contains(c, ".Equal(") && !strings.Contains(c, "OptionYes"):
			checks = append(checks, "TC_AllAbstain")
		case strings.Contains(c, "results[v1.OptionNoWithVeto]"):
			checks = append(checks, "TC_Veto")
		case strings.Contains(c, "results[v1.OptionYes]"):
			checks = append(checks, "TC_Threshold")
		default:
			die("Tally: unrecognized early return under `%s`", c)
		}
	}
	facts["sh_tally_checks"] = "[" + strings.Join(checks, "; ") + "]"

	// ---------------------------------------------------------------- checkProposalMsgs
	cp := funcDecl(msgServer, "checkProposalMsgs")
	{
		var loop *ast.RangeStmt
		ast.Inspect(cp.Body, func(x ast.Node) bool {
			if r, ok := x.(*ast.RangeStmt); ok && loop == nil {
				loop = r
			}
			return true
		})
		if loop == nil || loop.Value == nil {
			die("checkProposalMsgs: no range loop over the messages")
		}
		if len(cp.Type.Params.List) != 1 || str(cp.Type.Params.List[0].Type) != "[]sdk.Msg" || str(loop.X) != str(cp.Type.Params.List[0].Names[0]) {
			die("checkProposalMsgs: expected one []sdk.Msg parameter ranged over")
		}
		want := "sdk.MsgTypeURL(" + str(loop.Value) + ")"
		// the comparison: the variable carried from the previous message against an expression of this one
		var cmpArg, carried ast.Expr
		fold := false
		var carryVar string
		ast.Inspect(loop.Body, func(x ast.Node) bool {
			switch n := x.(type) {
			case *ast.CallExpr:
				if str(n.Fun) == "strings.EqualFold" && len(n.Args) == 2 && cmpArg == nil {
					carryVar, cmpArg, fold = str(n.Args[0]), n.Args[1], true
				}
			case *ast.BinaryExpr:
				if (n.Op == token.NEQ || n.Op == token.EQL) && cmpArg == nil && str(n.Y) != `""` && str(n.X) != `""` && str(n.Y) != "nil" {
					carryVar, cmpArg = str(n.X), n.Y
				}
			}
			return true
		})
		if cmpArg == nil {
			die("checkProposalMsgs: no comparison of consecutive messages found")
		}
		for _, st := range loop.Body.List {
			if a, ok := st.(*ast.AssignStmt); ok && len(a.Lhs) == 1 && str(a.Lhs[0]) == carryVar {
				carried = a.Rhs[0]
			}
		}
		// local aliases: v := <expr>
		alias := map[string]string{}
		for _, st := range loop.Body.List {
			if a, ok := st.(*ast.AssignStmt); ok && a.Tok == token.DEFINE && len(a.Lhs) == 1 {
				alias[str(a.Lhs[0])] = str(a.Rhs[0])
			}
		}
		res := func(e ast.Expr) string {
			t := str(e)
			if v, ok := alias[t]; ok {
				return v
			}
			return t
		}
		if carried != nil && res(cmpArg) == want && res(carried) == want {
			facts["sh_mixed_compare"] = "CmpTypeURL"
		} else {
			facts["sh_mixed_compare"] = "CmpOther"
		}
		facts["sh_mixed_fold"] = b(fold)
	}

	// ---------------------------------------------------------------- GetCustomMsgQuorum / GetCustomMsgVotingPeriod
	onlyAbsent := func(name, field, dflt string) bool {
		fd := funcDecl(proposal, name)
		nret := 0
		ast.Inspect(fd.Body, func(x ast.Node) bool {
			if _, ok := x.(*ast.ReturnStmt); ok {
				nret++
			}
			return true
		})
		l := fd.Body.List
		if len(l) != 3 || nret != 2 {
			return false
		}
		a, ok := l[0].(*ast.AssignStmt)
		if !ok || len(a.Lhs) != 1 || str(a.Rhs[0]) != "getProposalMsgType(proposal)" {
			return false
		}
		key := str(a.Lhs[0])
		f, ok := l[1].(*ast.IfStmt)
		if !ok || f.Init == nil || f.Else != nil || len(f.Body.List) != 1 {
			return false
		}
		in, ok := f.Init.(*ast.AssignStmt)
		if !ok || len(in.Lhs) != 2 || str(in.Rhs[0]) != "keeper.GetCustomParams(ctx, "+key+")" || str(f.Cond) != str(in.Lhs[1]) {
			return false
		}
		r1, ok := f.Body.List[0].(*ast.ReturnStmt)
		if !ok || len(r1.Results) != 1 || str(r1.Results[0]) != str(in.Lhs[0])+"."+field {
			return false
		}
		r2, ok := l[2].(*ast.ReturnStmt)
		return ok && len(r2.Results) == 1 && str(r2.Results[0]) == dflt
	}
	facts["sh_quorum_default_only_absent"] = b(onlyAbsent("GetCustomMsgQuorum", "Quorum", "defaultQuorum"))
	facts["sh_period_default_only_absent"] = b(onlyAbsent("GetCustomMsgVotingPeriod", "VotingPeriod", "defaultVotingPeriod"))

	// ---------------------------------------------------------------- EndBlocker, the ErrEncoding branches
	badBranch := func(queue string) bool {
		var lit *ast.FuncLit
		ast.Inspect(eb, func(x ast.Node) bool {
			if c, ok := x.(*ast.CallExpr); ok && str(c.Fun) == "keeper."+queue+".Walk" && len(c.Args) == 3 {
				if fl, ok := c.Args[2].(*ast.FuncLit); ok {
					lit = fl
				}
			}
			return true
		})
		if lit == nil || len(lit.Type.Params.List) == 0 || len(lit.Type.Params.List[0].Names) == 0 {
			die("EndBlocker: %s.Walk callback not found", queue)
		}
		keyName := lit.Type.Params.List[0].Names[0].Name
		var branch *ast.IfStmt
		ast.Inspect(lit.Body, func(x ast.Node) bool {
			if f, ok := x.(*ast.IfStmt); ok && branch == nil && str(f.Cond) == "errors.Is(err, collections.ErrEncoding)" {
				branch = f
			}
			return true
		})
		if branch == nil {
			die("EndBlocker: no ErrEncoding branch in the %s walk", queue)
		}
		byKey := false
		ast.Inspect(branch.Body, func(x ast.Node) bool {
			if c, ok := x.(*ast.CallExpr); ok && str(c.Fun) == "keeper."+queue+".Remove" && len(c.Args) == 2 && str(c.Args[1]) == keyName {
				byKey = true
			}
			return true
		})
		return byKey
	}
	facts["sh_bad_inactive_dequeued"] = b(badBranch("InactiveProposalsQueue"))
	facts["sh_bad_active_dequeued_by_key"] = b(badBranch("ActiveProposalsQueue"))

	// ---------------------------------------------------------------- output
	fields := []string{"sh_eb_order", "sh_payout_guard", "sh_dequeue_key_voting_end", "sh_cache_before_loop", "sh_cache_in_loop",
		"sh_exec_on_cache", "sh_err_plain_assign", "sh_break_on_err", "sh_write_in_loop", "sh_write_in_ok_branch", "sh_write_elsewhere",
		"sh_passed_in_ok_branch", "sh_failed_in_else_branch", "sh_conv_requeue_after_reassign", "sh_conv_period_default",
		"sh_dep_order", "sh_dep_ok_returns_before_record",
		"sh_act_inactive_remove_unconditional", "sh_act_inactive_key_deposit_end", "sh_act_active_key_voting_end",
		"sh_egf_key", "sh_type_key", "sh_tally_checks", "sh_mixed_compare", "sh_mixed_fold",
		"sh_quorum_default_only_absent", "sh_period_default_only_absent",
		"sh_bad_inactive_dequeued", "sh_bad_active_dequeued_by_key"}
	var sb strings.Builder
	sb.WriteString("(* generated by harness/gen_c15 from x/gov/abci.go and x/gov/keeper/{deposit,proposal,tally}.go; do not edit *)\n")
	sb.WriteString("From Coq Require Import ZArith List Bool.\nFrom FxV Require Import model.M_GovShape.\nImport ListNotations.\nOpen Scope Z_scope.\n\n")
	sb.WriteString("Definition gen_shape : gov_shape :=\n  {|")
	for i, f := range fields {
		v, ok := facts[f]
		if !ok {
			die("internal: fact %s missing", f)
		}
		if i > 0 {
			sb.WriteString(";")
		}
		sb.WriteString("\n     " + f + " := " + v)
	}
	sb.WriteString(" |}.\n")
	if err := os.WriteFile(filepath.Join(out, "Gen_GovShape.v"), []byte(sb.String()), 0o644); err != nil {
		die("write: %v", err)
	}
}
