// gen_c16: translator for property C16 (table 2).
//
// Reads fx-core's message servers with go/ast (no type checker needed) and writes
// Gen_Authority.v: one row per method
//
//	func (recv) Name(ctx context.Context, req *pkg.MsgX) (*pkg.MsgXResponse, error)
//
// found in non-test code under $VERIF_REPO/{x,app} whose request struct MsgX (looked up in
// the *.pb.go of the imported types package) has a field `Authority`, or whose body mentions
// `<req>.Authority` / `<req>.GetAuthority()`.  For each row:
//
//	type URL (from proto.RegisterType in the pb.go), file, receiver, handler name,
//	index of the first statement that compares the authority and rejects, its comparison
//	kind (`!=`, strings.EqualFold, helper whose comparison is not its first statement, other), the expression it is compared with,
//	whether any call other than the allow-listed pure ones precedes the guard,
//	and — for the crosschain router — the handler it delegates to.
//
// It also records the expression app/keepers/keepers.go binds `authAddr` to and how many
// keeper constructors receive it.  The translator fails loudly when it finds no handler at all
// or cannot find the pb.go registration of a request type.
package main

import (
	"bytes"
	"fmt"
	"go/ast"
	"go/parser"
	"go/printer"
	"go/token"
	"crypto/sha256"
	"encoding/hex"
	"os"
	"os/exec"
	"path/filepath"
	"regexp"
	"sort"
	"strconv"
	"strings"
)

const fxModule = "github.com/functionx/fx-core/v8"

// keeper packages of the dependencies whose message servers are registered on fx-core's router
var depKeeperPkgs = []string{
	"github.com/cosmos/cosmos-sdk/x/auth/keeper",
	"github.com/cosmos/cosmos-sdk/x/bank/keeper",
	"github.com/cosmos/cosmos-sdk/x/consensus/keeper",
	"github.com/cosmos/cosmos-sdk/x/crisis/keeper",
	"github.com/cosmos/cosmos-sdk/x/distribution/keeper",
	"github.com/cosmos/cosmos-sdk/x/gov/keeper",
	"github.com/cosmos/cosmos-sdk/x/mint/keeper",
	"github.com/cosmos/cosmos-sdk/x/slashing/keeper",
	"github.com/cosmos/cosmos-sdk/x/staking/keeper",
	"cosmossdk.io/x/upgrade/keeper",
	"github.com/cosmos/ibc-go/v8/modules/core/keeper",
	"github.com/cosmos/ibc-go/v8/modules/apps/transfer/keeper",
	"github.com/evmos/ethermint/x/evm/keeper",
	"github.com/evmos/ethermint/x/feemarket/keeper",
}

// ibc-go's gov-only messages carry the authority in a field called Signer
var signerAuthorityMsgs = map[string]bool{"MsgUpdateParams": true, "MsgRecoverClient": true, "MsgIBCSoftwareUpgrade": true}

type row struct {
	URL, File, Recv, Name, Req string
	GuardIdx                  int
	Kind                      string // CmpNeq | CmpEqualFold | CmpOther | CmpNone
	Against                   string
	PreEffect                 bool
	Delegate                  string // "" or the name of the method the router forwards to
	DelegateVia               string // the lookup function used before forwarding
	NStmts                    int
}

type pbInfo struct {
	url       map[string]string // Go type name -> proto full name
	authority map[string]bool   // Go type name -> has field Authority
	signer    map[string]bool   // Go type name -> has field Signer
}

var fset = token.NewFileSet()

func die(f string, a ...interface{}) {
	fmt.Fprintf(os.Stderr, "gen_c16: "+f+"\n", a...)
	os.Exit(1)
}

func src(n ast.Node) string {
	var b bytes.Buffer
	_ = printer.Fprint(&b, fset, n)
	return b.String()
}

var pbCache = map[string]*pbInfo{}

// loadPB parses every *.pb.go in dir: RegisterType calls and struct field names.
func loadPB(dir string) *pbInfo {
	if p, ok := pbCache[dir]; ok {
		return p
	}
	p := &pbInfo{url: map[string]string{}, authority: map[string]bool{}, signer: map[string]bool{}}
	pbCache[dir] = p
	files, _ := filepath.Glob(filepath.Join(dir, "*.pb.go"))
	for _, f := range files {
		af, err := parser.ParseFile(fset, f, nil, 0)
		if err != nil {
			die("cannot parse %s: %v", f, err)
		}
		ast.Inspect(af, func(n ast.Node) bool {
			switch x := n.(type) {
			case *ast.CallExpr:
				// proto.RegisterType((*MsgX)(nil), "full.name")
				if sel, ok := x.Fun.(*ast.SelectorExpr); ok && sel.Sel.Name == "RegisterType" && len(x.Args) == 2 {
					if lit, ok := x.Args[1].(*ast.BasicLit); ok && lit.Kind == token.STRING {
						name, _ := strconv.Unquote(lit.Value)
						if call, ok := x.Args[0].(*ast.CallExpr); ok {
							if par, ok := call.Fun.(*ast.ParenExpr); ok {
								if st, ok := par.X.(*ast.StarExpr); ok {
									if id, ok := st.X.(*ast.Ident); ok {
										p.url[id.Name] = "/" + name
									}
								}
							}
						}
					}
				}
			case *ast.TypeSpec:
				if st, ok := x.Type.(*ast.StructType); ok {
					for _, fl := range st.Fields.List {
						for _, nm := range fl.Names {
							if nm.Name == "Authority" {
								p.authority[x.Name.Name] = true
							}
							if nm.Name == "Signer" {
								p.signer[x.Name.Name] = true
							}
						}
					}
				}
			}
			return true
		})
	}
	return p
}

// prologue: the ONLY statement shape that may precede the guard without counting as an effect:
//
//	<ident> := sdk.UnwrapSDKContext(<ident>)
//
// matched exactly (not by prefix: `sdk.UnwrapSDKContext(c).KVStore(..).Set(..)` is an effect).
func isPrologue(s ast.Stmt) bool {
	as, ok := s.(*ast.AssignStmt)
	if !ok || as.Tok != token.DEFINE || len(as.Lhs) != 1 || len(as.Rhs) != 1 {
		return false
	}
	if _, ok := as.Lhs[0].(*ast.Ident); !ok {
		return false
	}
	call, ok := as.Rhs[0].(*ast.CallExpr)
	if !ok || len(call.Args) != 1 || src(call.Fun) != "sdk.UnwrapSDKContext" {
		return false
	}
	_, ok = call.Args[0].(*ast.Ident)
	return ok
}

// recvName: receiver identifier of the handler being analysed
var recvName = ""

// ownAuthority: e is the RECEIVER keeper's own authority — R.authority, R.GetAuthority(), either followed by
// .String(), or R.<field>.authority (an unexported field: necessarily a type of the keeper's own package).
// Another keeper's getter (R.bankKeeper.GetAuthority()), a local, the message itself … are not.
func ownAuthority(e ast.Expr) bool {
	if recvName == "" || recvName == "_" {
		return false
	}
	r := regexp.QuoteMeta(recvName)
	ok, _ := regexp.MatchString(`^`+r+`(\.authority|\.GetAuthority\(\)|\.[A-Za-z_][A-Za-z0-9_]*\.authority)(\.String\(\))?$`, src(e))
	return ok
}

// pureArg: an argument of the error constructor in the rejection body: literal, identifier / selector chain
// without calls, or one of the two compared operands
func pureArg(e ast.Expr, req string) bool {
	switch x := e.(type) {
	case *ast.BasicLit, *ast.Ident:
		return true
	case *ast.SelectorExpr:
		if ownAuthority(e) || mentionsAuthority(e, req) {
			return true
		}
		return pureArg(x.X, req)
	case *ast.CallExpr:
		return ownAuthority(e) || mentionsAuthority(e, req)
	}
	return false
}

// rejects: the block is exactly `return nil, <error constructor>(pure args…)` — nothing else may happen in it
func rejects(b *ast.BlockStmt, req string) bool {
	if b == nil || len(b.List) != 1 {
		return false
	}
	r, ok := b.List[0].(*ast.ReturnStmt)
	if !ok || len(r.Results) != 2 || src(r.Results[0]) != "nil" {
		return false
	}
	call, ok := r.Results[1].(*ast.CallExpr)
	if !ok {
		return false
	}
	sel, ok := call.Fun.(*ast.SelectorExpr)
	if !ok || (sel.Sel.Name != "Wrapf" && sel.Sel.Name != "Wrap" && src(call.Fun) != "fmt.Errorf") || !pureArg(sel.X, req) {
		return false
	}
	for _, a := range call.Args {
		if !pureArg(a, req) {
			return false
		}
	}
	return true
}

// authField: name of the request field that carries the authority for the handler being analysed
// ("Authority", or "Signer" for ibc-go's gov-only messages)
var authField = "Authority"

func mentionsAuthority(e ast.Expr, req string) bool {
	s := src(e)
	return s == req+"."+authField || s == req+".Get"+authField+"()"
}

// returnsError: the block ends by returning a non-nil last result
func returnsError(b *ast.BlockStmt) bool {
	if b == nil || len(b.List) == 0 {
		return false
	}
	r, ok := b.List[len(b.List)-1].(*ast.ReturnStmt)
	if !ok || len(r.Results) == 0 {
		return false
	}
	last := src(r.Results[len(r.Results)-1])
	return last != "nil"
}

// guardOf classifies an if-statement as an authority guard.
func guardOf(s ast.Stmt, req string) (kind, against string, ok bool) {
	ifs, isIf := s.(*ast.IfStmt)
	if !isIf || ifs.Init != nil {
		return "", "", false
	}
	cond := ifs.Cond
	for {
		if p, okp := cond.(*ast.ParenExpr); okp {
			cond = p.X
			continue
		}
		break
	}
	// classify: the message's authority on one side; the other side must be the receiver keeper's OWN authority
	// (or a local variable, which the caller resolves and which makes the guard "not first")
	classify := func(k string, other ast.Expr) (string, string, bool) {
		_, isLocal := other.(*ast.Ident)
		if !(ownAuthority(other) || isLocal) {
			return "CmpOther", "not the receiver's own authority: " + src(other), true
		}
		if !rejects(ifs.Body, req) || ifs.Else != nil {
			return "CmpOther", "the rejection branch is not exactly `return nil, <error>`: " + src(other), true
		}
		return k, src(other), true
	}
	switch c := cond.(type) {
	case *ast.BinaryExpr:
		var other ast.Expr
		if mentionsAuthority(c.X, req) {
			other = c.Y
		} else if mentionsAuthority(c.Y, req) {
			other = c.X
		}
		if other != nil {
			if mentionsAuthority(other, req) {
				return "CmpOther", "the message's authority compared with itself", true
			}
			if c.Op != token.NEQ {
				return "CmpOther", src(other), true
			}
			return classify("CmpNeq", other)
		}
	case *ast.UnaryExpr:
		if c.Op == token.NOT {
			if call, okc := c.X.(*ast.CallExpr); okc && len(call.Args) == 2 && src(call.Fun) == "strings.EqualFold" {
				var other ast.Expr
				if mentionsAuthority(call.Args[0], req) {
					other = call.Args[1]
				} else if mentionsAuthority(call.Args[1], req) {
					other = call.Args[0]
				}
				if other != nil {
					if mentionsAuthority(other, req) {
						return "CmpOther", "the message's authority compared with itself", true
					}
					return classify("CmpEqualFold", other)
				}
			}
		}
	}
	// any other condition mentioning the authority
	mention := false
	ast.Inspect(cond, func(n ast.Node) bool {
		if e, oke := n.(ast.Expr); oke && mentionsAuthority(e, req) {
			mention = true
		}
		return true
	})
	if mention {
		return "CmpOther", src(cond), true
	}
	return "", "", false
}

// helperGuardOf recognises
//
//	if err := k.validateAuthority(req.Authority); err != nil { return nil, err }
//
// where the helper, defined in the same file, compares its parameter with <recv>.authority using != and
// returns an error, after nothing but address-format checks.
func helperGuardOf(s ast.Stmt, req string, af *ast.File) (kind, against string, ok bool) {
	ifs, isIf := s.(*ast.IfStmt)
	if !isIf || ifs.Init == nil {
		return
	}
	as, isAs := ifs.Init.(*ast.AssignStmt)
	if !isAs || len(as.Rhs) != 1 {
		return
	}
	call, isCall := as.Rhs[0].(*ast.CallExpr)
	if !isCall {
		return
	}
	argIdx := -1
	for i, a := range call.Args {
		if mentionsAuthority(a, req) {
			argIdx = i
		}
	}
	sel, isSel := call.Fun.(*ast.SelectorExpr)
	if argIdx < 0 || !isSel {
		return
	}
	name := sel.Sel.Name
	// the caller must return the helper's error unconditionally
	if ifs.Else != nil || src(ifs.Cond) != "err != nil" || len(ifs.Body.List) != 1 || src(ifs.Body.List[0]) != "return nil, err" {
		return "CmpOther", name + ": its error is not returned unconditionally (" + src(ifs.Cond) + ")", true
	}
	if src(sel.X) != recvName {
		return "CmpOther", name + ": not a method of the receiver", true
	}
	for _, d := range af.Decls {
		fd, isFd := d.(*ast.FuncDecl)
		if !isFd || fd.Name.Name != name || fd.Body == nil || fd.Type.Params == nil {
			continue
		}
		var params []string
		for _, f := range fd.Type.Params.List {
			for _, n := range f.Names {
				params = append(params, n.Name)
			}
		}
		if argIdx >= len(params) {
			return "CmpOther", name, true
		}
		param := params[argIdx]
		for _, hs := range fd.Body.List {
			hif, isHif := hs.(*ast.IfStmt)
			if isHif && hif.Init == nil {
				if be, isBe := hif.Cond.(*ast.BinaryExpr); isBe && be.Op == token.NEQ {
					var other ast.Expr
					if src(be.X) == param {
						other = be.Y
					} else if src(be.Y) == param {
						other = be.X
					}
					if other != nil {
						hr := ""
						if fd.Recv != nil && len(fd.Recv.List) == 1 && len(fd.Recv.List[0].Names) == 1 {
							hr = fd.Recv.List[0].Names[0].Name
						}
						saved := recvName
						recvName = hr
						own := ownAuthority(other)
						recvName = saved
						if own && helperReturnsErr(hif.Body) && len(hif.Body.List) == 1 && hif.Else == nil {
							return "CmpNeq", strings.Replace(src(other), hr+".", saved+".", 1), true
						}
						return "CmpOther", name + ": compares with " + src(other), true
					}
				}
			}
			// allowed before the comparison: an address-format check of the parameter
			if isHif && strings.Contains(src(hif), "StringToBytes("+param+")") {
				continue
			}
			// anything else in front of the comparison: the helper may return (an error or nil) before it compares
			first := src(hs)
			if i := strings.Index(first, "\n"); i > 0 {
				first = first[:i]
			}
			return "CmpGuardNotFirst", name + ": `" + strings.TrimSpace(first) + "` precedes the comparison", true
		}
		return "CmpOther", name, true
	}
	return "CmpOther", name, true
}

func helperReturnsErr(b *ast.BlockStmt) bool {
	if b == nil || len(b.List) == 0 {
		return false
	}
	r, ok := b.List[len(b.List)-1].(*ast.ReturnStmt)
	return ok && len(r.Results) == 1 && src(r.Results[0]) != "nil"
}

// delegateOf recognises the crosschain router shape:
//
//	if server, err := k.lookup(msg.GetChainName()); err != nil { return nil, err } else { return server.Name(ctx, msg) }
func delegateOf(body *ast.BlockStmt, req string) (name, via string, ok bool) {
	if len(body.List) != 1 {
		return
	}
	ifs, isIf := body.List[0].(*ast.IfStmt)
	if !isIf || ifs.Init == nil || ifs.Else == nil {
		return
	}
	as, isAs := ifs.Init.(*ast.AssignStmt)
	if !isAs || len(as.Rhs) != 1 || len(as.Lhs) != 2 {
		return
	}
	call, isCall := as.Rhs[0].(*ast.CallExpr)
	if !isCall {
		return
	}
	if src(ifs.Cond) != "err != nil" || !returnsError(ifs.Body) || len(ifs.Body.List) != 1 {
		return
	}
	eb, isB := ifs.Else.(*ast.BlockStmt)
	if !isB || len(eb.List) != 1 {
		return
	}
	ret, isR := eb.List[0].(*ast.ReturnStmt)
	if !isR || len(ret.Results) != 1 {
		return
	}
	fw, isC := ret.Results[0].(*ast.CallExpr)
	if !isC || len(fw.Args) != 2 || src(fw.Args[1]) != req {
		return
	}
	sel, isS := fw.Fun.(*ast.SelectorExpr)
	if !isS || src(sel.X) != src(as.Lhs[0]) {
		return
	}
	lk, isS2 := call.Fun.(*ast.SelectorExpr)
	if !isS2 {
		return
	}
	return sel.Sel.Name, lk.Sel.Name, true
}

func coqStr(s string) string { return "\"" + strings.ReplaceAll(s, "\"", "\"\"") + "\"" }
func coqBool(b bool) string {
	if b {
		return "true"
	}
	return "false"
}

func main() {
	repo := os.Getenv("VERIF_REPO")
	if repo == "" {
		repo = "/repo"
	}
	out := os.Getenv("VERIF_OUT")
	if out == "" {
		out = "."
	}
	var rows []row
	lookups := map[string]bool{} // "file|func" of lookup helpers used by delegating handlers
	funcs := map[string]*ast.FuncDecl{}
	nfiles := 0
	// resolveDir: directory of an import path at the version /repo's go.mod selects
	dirCache := map[string]string{}
	resolveDir := func(ipath string) string {
		if d, ok := dirCache[ipath]; ok {
			return d
		}
		d := ""
		if strings.HasPrefix(ipath, fxModule+"/") {
			d = filepath.Join(repo, strings.TrimPrefix(ipath, fxModule+"/"))
		} else {
			cmd := exec.Command("go", "list", "-mod=readonly", "-f", "{{.Dir}}", ipath)
			cmd.Dir = repo
			cmd.Env = append(os.Environ(), "GOFLAGS=-mod=readonly", "GOPROXY=off", "GOSUMDB=off", "GOTOOLCHAIN=local")
			if out, err := cmd.Output(); err == nil {
				d = strings.TrimSpace(string(out))
			}
		}
		dirCache[ipath] = d
		return d
	}
	depFiles := map[string]string{} // dependency file label -> sha256 (files that contributed a row)
	processFile := func(path, rel string, dep bool) {
	af, perr := parser.ParseFile(fset, path, nil, 0)
	if perr != nil {
		die("cannot parse %s: %v", path, perr)
	}
	nfiles++
	imports := map[string]string{} // local name -> import path
	for _, im := range af.Imports {
		p, _ := strconv.Unquote(im.Path.Value)
		name := filepath.Base(p)
		if im.Name != nil {
			name = im.Name.Name
		}
		imports[name] = p
	}
	for _, d := range af.Decls {
		fd, ok := d.(*ast.FuncDecl)
		if !ok || fd.Body == nil {
			continue
		}
		if fd.Recv != nil && len(fd.Recv.List) == 1 {
			funcs[rel+"|"+fd.Name.Name] = fd
		}
		if fd.Recv == nil || len(fd.Recv.List) != 1 || fd.Type.Params == nil || fd.Type.Results == nil {
			continue
		}
		// flatten params
		var ptypes []ast.Expr
		var pnames []string
		for _, f := range fd.Type.Params.List {
			n := len(f.Names)
			if n == 0 {
				n = 1
			}
			for i := 0; i < n; i++ {
				ptypes = append(ptypes, f.Type)
				if len(f.Names) > i {
					pnames = append(pnames, f.Names[i].Name)
				} else {
					pnames = append(pnames, "_")
				}
			}
		}
		if len(ptypes) != 2 || src(ptypes[0]) != "context.Context" || len(fd.Type.Results.List) != 2 {
			continue
		}
		st, ok := ptypes[1].(*ast.StarExpr)
		if !ok {
			continue
		}
		sel, ok := st.X.(*ast.SelectorExpr)
		if !ok || !strings.HasPrefix(sel.Sel.Name, "Msg") {
			continue
		}
		pkgName := src(sel.X)
		typeName := sel.Sel.Name
		req := pnames[1]
		ipath := imports[pkgName]
		tdir := resolveDir(ipath)
		if tdir == "" {
			if dep {
				continue
			}
			die("%s: cannot locate package %s of request type %s", rel, ipath, typeName)
		}
		pb := loadPB(tdir)
		url := pb.url[typeName]
		authField = "Authority"
		if !pb.authority[typeName] {
			if pb.signer[typeName] && signerAuthorityMsgs[typeName] && strings.Contains(ipath, "/ibc-go/") {
				authField = "Signer"
			} else {
				continue
			}
		}
		if url == "" {
			die("%s: no proto.RegisterType for %s.%s in %s", rel, pkgName, typeName, ipath)
		}
		recv := src(fd.Recv.List[0].Type)
		recvName = ""
		if len(fd.Recv.List[0].Names) == 1 {
			recvName = fd.Recv.List[0].Names[0].Name
		}
		r := row{URL: url, File: rel, Recv: recv, Name: fd.Name.Name, Req: pkgName + "." + typeName,
			GuardIdx: -1, Kind: "CmpNone", NStmts: len(fd.Body.List)}
		if dn, via, ok := delegateOf(fd.Body, req); ok {
			r.Delegate, r.DelegateVia = dn, via
			lookups[rel+"|"+via] = true
		} else {
			locals := map[string]ast.Expr{} // x := <expr> seen before the guard
			for i, s := range fd.Body.List {
				if k, ag, ok := guardOf(s, req); ok {
					r.GuardIdx, r.Kind, r.Against = i, k, ag
					if e, isLocal := locals[ag]; isLocal { // compared with a local: report what it was computed from
						r.Against = src(e)
					}
					break
				}
				if k, ag, ok := helperGuardOf(s, req, af); ok {
					r.GuardIdx, r.Kind, r.Against = i, k, ag
					break
				}
				if as, ok := s.(*ast.AssignStmt); ok && as.Tok == token.DEFINE && len(as.Lhs) == 1 && len(as.Rhs) == 1 {
					locals[src(as.Lhs[0])] = as.Rhs[0]
				}
				if !isPrologue(s) { // anything but the exact prologue before the guard: an effect, a local, an early return …
					r.PreEffect = true
				}
			}
			if r.GuardIdx < 0 {
				r.PreEffect = false
			}
		}
		if dep {
			if _, ok := depFiles[rel]; !ok {
				bz, err := os.ReadFile(path)
				if err != nil {
					die("%v", err)
				}
				h := sha256.Sum256(bz)
				depFiles[rel] = hex.EncodeToString(h[:])
			}
		}
		rows = append(rows, r)
	}
	}
	for _, top := range []string{"x", "app"} {
		_ = filepath.Walk(filepath.Join(repo, top), func(path string, info os.FileInfo, err error) error {
			if err != nil || info.IsDir() || !strings.HasSuffix(path, ".go") || strings.HasSuffix(path, "_test.go") ||
				strings.HasSuffix(path, ".pb.go") || strings.HasSuffix(path, ".pb.gw.go") || strings.Contains(path, "/mock/") ||
				strings.Contains(path, "/testutil/") {
				return nil
			}
			rel, _ := filepath.Rel(repo, path)
			processFile(path, rel, false)
			return nil
		})
	}
	// dependency message servers that are routable in fx-core's app, at the versions go.mod selects
	modcache := ""
	{
		cmd := exec.Command("go", "env", "GOMODCACHE")
		out, _ := cmd.Output()
		modcache = strings.TrimSpace(string(out))
	}
	for _, kp := range depKeeperPkgs {
		dir := resolveDir(kp)
		if dir == "" {
			die("cannot locate dependency package %s (go list failed in %s)", kp, repo)
		}
		files, _ := filepath.Glob(filepath.Join(dir, "*.go"))
		sort.Strings(files)
		for _, f := range files {
			if strings.HasSuffix(f, "_test.go") || strings.HasSuffix(f, ".pb.go") || strings.HasSuffix(f, ".pb.gw.go") {
				continue
			}
			label := f
			if modcache != "" && strings.HasPrefix(f, modcache+"/") {
				label = strings.TrimPrefix(f, modcache+"/")
			}
			processFile(f, label, true)
		}
	}
	if len(rows) == 0 {
		die("found no authority-carrying message handler under %s/{x,app} (%d files parsed)", repo, nfiles)
	}
	sort.Slice(rows, func(i, j int) bool {
		a, b := rows[i], rows[j]
		if a.URL != b.URL {
			return a.URL < b.URL
		}
		if a.File != b.File {
			return a.File < b.File
		}
		return a.Name < b.Name
	})

	// lookup helpers used by delegating handlers: they must not write anything — record their calls
	type lk struct{ File, Name, Calls string }
	var lks []lk
	var lkeys []string
	for k := range lookups {
		lkeys = append(lkeys, k)
	}
	sort.Strings(lkeys)
	for _, k := range lkeys {
		fd := funcs[k]
		parts := strings.SplitN(k, "|", 2)
		if fd == nil {
			die("delegating handler uses lookup %s which is not defined in the same file", k)
		}
		var calls []string
		ast.Inspect(fd.Body, func(n ast.Node) bool {
			if c, ok := n.(*ast.CallExpr); ok {
				if s, ok := c.Fun.(*ast.SelectorExpr); ok {
					calls = append(calls, s.Sel.Name)
				} else {
					calls = append(calls, src(c.Fun))
				}
			}
			return true
		})
		lks = append(lks, lk{parts[0], parts[1], strings.Join(calls, ",")})
	}

	// who calls a privileged handler directly (not through baseapp's MsgServiceRouter, whose handler wrapper runs
	// ValidateBasic first)?  Syntactic: any call `<x>.<Name>(ctx, msg)` with two arguments in non-test fx-core code
	// under x, app, ante where Name is the name of a privileged fx-core handler.
	hnames := map[string]bool{}
	for _, r := range rows {
		if !strings.Contains(r.File, "@") {
			hnames[r.Name] = true
		}
	}
	type dc struct{ File, Func, Callee string }
	var dcs []dc
	for _, top := range []string{"x", "app", "ante"} {
		_ = filepath.Walk(filepath.Join(repo, top), func(path string, info os.FileInfo, err error) error {
			if err != nil || info.IsDir() || !strings.HasSuffix(path, ".go") || strings.HasSuffix(path, "_test.go") ||
				strings.HasSuffix(path, ".pb.go") || strings.HasSuffix(path, ".pb.gw.go") || strings.Contains(path, "/mock/") ||
				strings.Contains(path, "/testutil/") || strings.Contains(path, "/client/") {
				return nil
			}
			af, perr := parser.ParseFile(fset, path, nil, 0)
			if perr != nil {
				return nil
			}
			rel, _ := filepath.Rel(repo, path)
			for _, d := range af.Decls {
				fd, ok := d.(*ast.FuncDecl)
				if !ok || fd.Body == nil {
					continue
				}
				ast.Inspect(fd.Body, func(n ast.Node) bool {
					if c, ok := n.(*ast.CallExpr); ok && len(c.Args) == 2 {
						if sel, ok := c.Fun.(*ast.SelectorExpr); ok && hnames[sel.Sel.Name] {
							dcs = append(dcs, dc{rel, fd.Name.Name, src(sel.X) + "." + sel.Sel.Name})
						}
					}
					return true
				})
			}
			return nil
		})
	}
	sort.Slice(dcs, func(i, j int) bool {
		if dcs[i].File != dcs[j].File {
			return dcs[i].File < dcs[j].File
		}
		return dcs[i].Func+dcs[i].Callee < dcs[j].Func+dcs[j].Callee
	})
	// baseapp's router wrapper: ValidateBasic is called before the service method (file pinned like the other dependency files)
	routerVB := false
	{
		dir := resolveDir("github.com/cosmos/cosmos-sdk/baseapp")
		path := filepath.Join(dir, "msg_service_router.go")
		bz, err := os.ReadFile(path)
		if err != nil {
			die("cannot read baseapp/msg_service_router.go: %v", err)
		}
		txt := string(bz)
		i, j := strings.Index(txt, "m.ValidateBasic()"), strings.Index(txt, "methodHandler(handler, ctx")
		routerVB = i > 0 && j > i
		label := path
		if modcache != "" && strings.HasPrefix(path, modcache+"/") {
			label = strings.TrimPrefix(path, modcache+"/")
		}
		h := sha256.Sum256(bz)
		depFiles[label] = hex.EncodeToString(h[:])
	}

	// app/keepers/keepers.go: what authAddr is
	authExpr, authUses := "", 0
	var keeperAuth [][3]string
	{
		p := filepath.Join(repo, "app/keepers/keepers.go")
		af, err := parser.ParseFile(fset, p, nil, 0)
		if err != nil {
			die("cannot parse %s: %v", p, err)
		}
		ast.Inspect(af, func(n ast.Node) bool {
			switch x := n.(type) {
			case *ast.AssignStmt:
				if len(x.Lhs) == 1 && len(x.Rhs) == 1 && src(x.Lhs[0]) == "authAddr" {
					authExpr = src(x.Rhs[0])
				}
			case *ast.CallExpr:
				for _, a := range x.Args {
					if src(a) == "authAddr" {
						authUses++
					}
				}
			}
			return true
		})
		if authExpr == "" {
			die("app/keepers/keepers.go: no assignment to authAddr found")
		}
		// one row per keeper constructor call that is handed an authority-like argument (the variable authAddr or
		// any NewModuleAddress(..) expression): (what it is assigned to, constructor, the argument)
		ast.Inspect(af, func(n ast.Node) bool {
			as, ok := n.(*ast.AssignStmt)
			if !ok || len(as.Lhs) != 1 || len(as.Rhs) != 1 {
				return true
			}
			lhs := src(as.Lhs[0])
			ast.Inspect(as.Rhs[0], func(m ast.Node) bool {
				c, ok := m.(*ast.CallExpr)
				if !ok {
					return true
				}
				for _, a := range c.Args {
					t := src(a)
					if t == "authAddr" || strings.HasPrefix(t, "authtypes.NewModuleAddress(") {
						keeperAuth = append(keeperAuth, [3]string{lhs, src(c.Fun), t})
					}
				}
				return true
			})
			return true
		})
	}

	var sb strings.Builder
	sb.WriteString("(* generated by harness/gen_c16 from fx-core's message servers (go/ast); do not edit *)\n")
	sb.WriteString("From Coq Require Import String ZArith List.\nFrom FxV Require Import model.M_AuthorityTypes.\nImport ListNotations.\nOpen Scope string_scope.\nOpen Scope Z_scope.\n\n")
	sb.WriteString("Definition gen_handlers : list handler_row :=\n [")
	for i, r := range rows {
		if i > 0 {
			sb.WriteString(";\n  ")
		}
		fmt.Fprintf(&sb, "mk_handler %s %s %s %s %s (%d) %s %s %s %s %s %d",
			coqStr(r.URL), coqStr(r.File), coqStr(r.Recv), coqStr(r.Name), coqStr(r.Req), r.GuardIdx, r.Kind,
			coqStr(r.Against), coqBool(r.PreEffect), coqStr(r.Delegate), coqStr(r.DelegateVia), r.NStmts)
	}
	sb.WriteString("].\n\n")
	sb.WriteString("Definition gen_lookups : list lookup_row :=\n [")
	for i, l := range lks {
		if i > 0 {
			sb.WriteString(";\n  ")
		}
		fmt.Fprintf(&sb, "mk_lookup %s %s %s", coqStr(l.File), coqStr(l.Name), coqStr(l.Calls))
	}
	sb.WriteString("].\n\n")
	var dfs []string
	for f := range depFiles {
		dfs = append(dfs, f)
	}
	sort.Strings(dfs)
	sb.WriteString("(* dependency sources the rows above were read from, at the versions go.mod selects *)\nDefinition gen_dep_files : list (string * string) :=\n [")
	for i, f := range dfs {
		if i > 0 {
			sb.WriteString(";\n  ")
		}
		fmt.Fprintf(&sb, "(%s, %s)", coqStr(f), coqStr(depFiles[f]))
	}
	sb.WriteString("].\n\n")
	sb.WriteString("(* calls of a privileged fx-core handler by name from non-test code under x, app, ante: (file, function, callee) *)\nDefinition gen_direct_callers : list (string * string * string) :=\n [")
	for i, d := range dcs {
		if i > 0 {
			sb.WriteString(";\n  ")
		}
		fmt.Fprintf(&sb, "(%s, %s, %s)", coqStr(d.File), coqStr(d.Func), coqStr(d.Callee))
	}
	sb.WriteString("].\n\n")
	fmt.Fprintf(&sb, "(* baseapp's MsgServiceRouter handler wrapper calls msg.ValidateBasic() before the service method *)\nDefinition gen_router_validates_basic : bool := %s.\n\n", coqBool(routerVB))
	sb.WriteString("(* app/keepers/keepers.go: every keeper constructor call that receives an authority-like argument: (assigned to, constructor, argument) *)\nDefinition gen_keeper_authorities : list (string * string * string) :=\n [")
	for i, k := range keeperAuth {
		if i > 0 {
			sb.WriteString(";\n  ")
		}
		fmt.Fprintf(&sb, "(%s, %s, %s)", coqStr(k[0]), coqStr(k[1]), coqStr(k[2]))
	}
	sb.WriteString("].\n\n")
	fmt.Fprintf(&sb, "Definition gen_authaddr_expr : string := %s.\n", coqStr(authExpr))
	fmt.Fprintf(&sb, "Definition gen_authaddr_uses : Z := %d.\n", authUses)
	if err := os.WriteFile(filepath.Join(out, "Gen_Authority.v"), []byte(sb.String()), 0o644); err != nil {
		die("%v", err)
	}
	fmt.Printf("gen_c16: %d handler rows, %d lookup rows, authAddr := %s (%d uses), %d files parsed\n", len(rows), len(lks), authExpr, authUses, nfiles)
}
