// gen_c17: translator for property C17 (determinism).
//
// Type-checks every non-test package of fx-core under {x,app,ante,types} with go/types (stdlib
// only: package export data comes from `go list -export -deps`, the importer is go/importer "gc"
// with a lookup function) and lists every potential source of run-to-run nondeterminism:
//
//	maprange      `range` over an expression whose type is a map
//	mapkeys       maps.Keys / maps.Values / reflect MapKeys / MapRange (unordered results)
//	float         arithmetic or comparison on float operands, conversions to a float type, .Float64()
//	floatfmt      strconv.FormatFloat / fmt verbs applied to a float argument
//	timenow       time.Now / time.Since / time.Until
//	rand          any use of math/rand or math/rand/v2
//	goroutine     go statements
//	select        select statements
//	stack         import of runtime/debug; calls debug.Stack / PrintStack, runtime.Stack / Caller / Callers / FuncForPC
//	              (goroutine ids, program counters and addresses end up in the text)
//	ptrfmt        fmt formatting with a %p verb, or of an argument whose static type is a chan, func, unsafe.Pointer
//	              or pointer to a non-struct (printed as an address)
//	state         (packages under x/ only) mutable process-level state that outlives a context branch:
//	              package-level variables of map / slice / chan / pointer type, and fields of map / slice / chan /
//	              pointer type in structs of keeper packages (a cache inside a keeper is not rolled back with the
//	              branch that filled it and is empty again after a restart); detail = the sorted "name:type" list
//
// each with file and enclosing function.  Output: Gen_NondetSites.v, one row per
// (file, function, kind) with the number of occurrences, sorted.  The committed allow-table
// coq/model/M_NondetAllow.v must name a discharge for every row (theorem C17_all_sites_discharged),
// so a NEW site — or one more occurrence in a known function — breaks the proof.
package main

import (
	"encoding/json"
	"fmt"
	"go/ast"
	"go/importer"
	"go/parser"
	"go/printer"
	"go/token"
	"go/types"
	"io"
	"os"
	"os/exec"
	"path/filepath"
	"sort"
	"strings"
)

const fxModule = "github.com/functionx/fx-core/v8"

type listPkg struct {
	ImportPath string
	Export     string
	Dir        string
	GoFiles    []string
	CgoFiles   []string
	Standard   bool
	Error      *struct{ Err string }
}

func die(f string, a ...interface{}) {
	fmt.Fprintf(os.Stderr, "gen_c17: "+f+"\n", a...)
	os.Exit(1)
}

type site struct{ File, Func, Kind string }

func isFloat(t types.Type) bool {
	if t == nil {
		return false
	}
	b, ok := t.Underlying().(*types.Basic)
	return ok && b.Info()&types.IsFloat != 0
}

func main() {
	repo := os.Getenv("VERIF_REPO")
	if repo == "" {
		repo = "/repo"
	}
	out := os.Getenv("VERIF_OUT")
	if out == "" {
		out = "."
	}
	cmd := exec.Command("go", "list", "-mod=readonly", "-export", "-deps", "-json=ImportPath,Export,Dir,GoFiles,CgoFiles,Standard,Error",
		"./x/...", "./app/...", "./ante/...", "./types/...")
	cmd.Dir = repo
	cmd.Env = append(os.Environ(), "GOFLAGS=-mod=readonly", "GOPROXY=off", "GOSUMDB=off", "GOTOOLCHAIN=local")
	cmd.Stderr = os.Stderr
	raw, err := cmd.Output()
	if err != nil {
		die("go list failed in %s: %v", repo, err)
	}
	dec := json.NewDecoder(strings.NewReader(string(raw)))
	exports := map[string]string{}
	var targets []listPkg
	for {
		var p listPkg
		if err := dec.Decode(&p); err == io.EOF {
			break
		} else if err != nil {
			die("go list output: %v", err)
		}
		if p.Export != "" {
			exports[p.ImportPath] = p.Export
		}
		if !strings.HasPrefix(p.ImportPath, fxModule+"/") {
			continue
		}
		rel := strings.TrimPrefix(p.ImportPath, fxModule+"/")
		top := strings.SplitN(rel, "/", 2)[0]
		if top != "x" && top != "app" && top != "ante" && top != "types" {
			continue
		}
		if strings.Contains(rel, "/mock") || strings.Contains(rel, "testutil") {
			continue
		}
		if p.Error != nil {
			die("package %s does not load: %s", p.ImportPath, p.Error.Err)
		}
		targets = append(targets, p)
	}
	if len(targets) < 20 {
		die("only %d fx-core packages found under {x,app,ante,types}", len(targets))
	}
	fset := token.NewFileSet()
	imp := importer.ForCompiler(fset, "gc", func(path string) (io.ReadCloser, error) {
		e, ok := exports[path]
		if !ok || e == "" {
			return nil, fmt.Errorf("no export data for %s", path)
		}
		return os.Open(e)
	})
	counts := map[site]int{}
	details := map[site][]string{}
	st := &stateFacts{members: map[string]string{}, writes: map[string][][2]string{}, calls: map[string][]string{}, guards: map[string]string{}}
	nfiles := 0
	for _, p := range targets {
		var files []*ast.File
		for _, f := range append(append([]string{}, p.GoFiles...), p.CgoFiles...) {
			if strings.HasSuffix(f, "_test.go") {
				continue
			}
			af, err := parser.ParseFile(fset, filepath.Join(p.Dir, f), nil, 0)
			if err != nil {
				die("parse %s: %v", f, err)
			}
			files = append(files, af)
			nfiles++
		}
		info := &types.Info{Types: map[ast.Expr]types.TypeAndValue{}, Uses: map[*ast.Ident]types.Object{}, Defs: map[*ast.Ident]types.Object{}, Selections: map[*ast.SelectorExpr]*types.Selection{}}
		conf := types.Config{Importer: imp, FakeImportC: true, Error: func(err error) {}}
		_, terr := conf.Check(p.ImportPath, fset, files, info)
		if terr != nil {
			die("type-check %s: %v", p.ImportPath, terr)
		}
		for _, af := range files {
			fname, _ := filepath.Rel(repo, fset.Position(af.Pos()).Filename)
			if strings.HasSuffix(fname, ".pb.go") || strings.HasSuffix(fname, ".pb.gw.go") {
				continue
			}
			scan(af, fname, info, counts, details)
			if strings.HasPrefix(fname, "x/") {
				scanState(af, fname, p.ImportPath, info, counts, details, st)
			}
			scanWrites(af, fname, p.ImportPath, info, st)
		}
	}
	var sites []site
	for s := range counts {
		sites = append(sites, s)
	}
	sort.Slice(sites, func(i, j int) bool {
		a, b := sites[i], sites[j]
		if a.File != b.File {
			return a.File < b.File
		}
		if a.Func != b.Func {
			return a.Func < b.Func
		}
		return a.Kind < b.Kind
	})
	var sb strings.Builder
	sb.WriteString("(* generated by harness/gen_c17 (go/types over fx-core's non-test packages under x, app, ante, types); do not edit *)\n")
	sb.WriteString("From Coq Require Import String ZArith List.\nFrom FxV Require Import model.M_NondetTypes.\nImport ListNotations.\nOpen Scope string_scope.\nOpen Scope Z_scope.\n\n")
	sb.WriteString("Definition gen_sites : list site_row :=\n [")
	for i, s := range sites {
		if i > 0 {
			sb.WriteString(";\n  ")
		}
		d := append([]string{}, details[s]...)
		sort.Strings(d)
		fmt.Fprintf(&sb, "mk_site \"%s\" \"%s\" K_%s %d \"%s\"", s.File, s.Func, s.Kind, counts[s], strings.ReplaceAll(strings.Join(d, ","), "\"", "'"))
	}
	sb.WriteString("].\n\n")
	st.emit(&sb)
	fmt.Fprintf(&sb, "Definition gen_packages_checked : Z := %d.\nDefinition gen_files_checked : Z := %d.\n", len(targets), nfiles)
	fmt.Fprintf(&sb, "Definition gen_max_oracle_size : Z := %s.\n", constValue(targets, fset, imp, fxModule+"/x/crosschain/types", "MaxOracleSize"))
	if err := os.WriteFile(filepath.Join(out, "Gen_NondetSites.v"), []byte(sb.String()), 0o644); err != nil {
		die("%v", err)
	}
	fmt.Printf("gen_c17: %d site rows in %d packages / %d files\n", len(sites), len(targets), nfiles)
}

func funcName(fd *ast.FuncDecl) string {
	if fd.Recv != nil && len(fd.Recv.List) == 1 {
		t := fd.Recv.List[0].Type
		if st, ok := t.(*ast.StarExpr); ok {
			t = st.X
		}
		if ix, ok := t.(*ast.IndexExpr); ok {
			t = ix.X
		}
		if id, ok := t.(*ast.Ident); ok {
			return id.Name + "." + fd.Name.Name
		}
	}
	return fd.Name.Name
}

// details: for floatfmt sites the format string literal (the precision a float is rendered with before it
// is compared is part of the mechanism); for float sites "inmaprange" once per occurrence that lies
// lexically inside the body of a range over a map (an order-dependent accumulation candidate).
func scan(af *ast.File, fname string, info *types.Info, counts map[site]int, details map[site][]string) {
	for _, im := range af.Imports {
		if im.Path.Value == "\"runtime/debug\"" {
			counts[site{fname, "<imports>", "stack"}]++
			details[site{fname, "<imports>", "stack"}] = append(details[site{fname, "<imports>", "stack"}], "runtime/debug")
		}
	}
	inMapRange := 0
	add := func(fn, kind string) {
		counts[site{fname, fn, kind}]++
		if kind == "float" && inMapRange > 0 {
			details[site{fname, fn, kind}] = append(details[site{fname, fn, kind}], "inmaprange")
		}
	}
	addDetail := func(fn, kind, d string) { details[site{fname, fn, kind}] = append(details[site{fname, fn, kind}], d) }
	pkgOf := func(e ast.Expr) string { // import path of the package a selector's X names
		if id, ok := e.(*ast.Ident); ok {
			if pn, ok := info.Uses[id].(*types.PkgName); ok {
				return pn.Imported().Path()
			}
		}
		return ""
	}
	var stack []ast.Node
	mapRanges := map[ast.Node]bool{}
	visit := func(fn string, root ast.Node) {
		ast.Inspect(root, func(n ast.Node) bool {
			if n == nil {
				top := stack[len(stack)-1]
				stack = stack[:len(stack)-1]
				if mapRanges[top] {
					inMapRange--
				}
				return true
			}
			stack = append(stack, n)
			switch x := n.(type) {
			case *ast.RangeStmt:
				if tv, ok := info.Types[x.X]; ok && tv.Type != nil {
					if _, isMap := tv.Type.Underlying().(*types.Map); isMap {
						add(fn, "maprange")
						addDetail(fn, "maprange", "shape="+loopShape(x, root, info))
						mapRanges[n] = true
						inMapRange++
					}
				}
			case *ast.GoStmt:
				add(fn, "goroutine")
			case *ast.SelectStmt:
				add(fn, "select")
			case *ast.AssignStmt:
				// delta += x on a float accumulator
				if x.Tok != token.ASSIGN && x.Tok != token.DEFINE && len(x.Lhs) == 1 {
					if tv, ok := info.Types[x.Lhs[0]]; ok && isFloat(tv.Type) {
						add(fn, "float")
					}
				}
			case *ast.IncDecStmt:
				if tv, ok := info.Types[x.X]; ok && isFloat(tv.Type) {
					add(fn, "float")
				}
			case *ast.BinaryExpr:
				isF := false
				if tv, ok := info.Types[x.X]; ok && isFloat(tv.Type) {
					isF = true
				} else if tv, ok := info.Types[x.Y]; ok && isFloat(tv.Type) {
					isF = true
				}
				if isF {
					add(fn, "float")
					_, lx := x.X.(*ast.BasicLit)
					_, ly := x.Y.(*ast.BasicLit)
					switch x.Op {
					case token.LSS, token.LEQ, token.GTR, token.GEQ, token.EQL, token.NEQ:
						if (lx || ly) && inMapRange == 0 {
							addDetail(fn, "float", "compare-const")
						}
					}
				}
			case *ast.CallExpr:
				// conversion to a float type
				if tv, ok := info.Types[x.Fun]; ok && tv.IsType() && isFloat(tv.Type) {
					add(fn, "float")
					if len(stack) >= 2 {
						if pc, ok := stack[len(stack)-2].(*ast.CallExpr); ok {
							if ps, ok := pc.Fun.(*ast.SelectorExpr); ok && strings.HasSuffix(pkgOf(ps.X), "/telemetry") {
								addDetail(fn, "float", "telemetry-arg")
							}
						}
					}
				}
				if sel, ok := x.Fun.(*ast.SelectorExpr); ok {
					switch p := pkgOf(sel.X); {
					case p == "time" && (sel.Sel.Name == "Now" || sel.Sel.Name == "Since" || sel.Sel.Name == "Until"):
						add(fn, "timenow")
					case p == "math/rand" || p == "math/rand/v2":
						add(fn, "rand")
					case (p == "golang.org/x/exp/maps" || p == "maps") && (sel.Sel.Name == "Keys" || sel.Sel.Name == "Values"):
						add(fn, "mapkeys")
					case p == "strconv" && sel.Sel.Name == "FormatFloat":
						add(fn, "floatfmt")
					case p == "runtime/debug" && (sel.Sel.Name == "Stack" || sel.Sel.Name == "PrintStack"):
						add(fn, "stack")
						addDetail(fn, "stack", "debug."+sel.Sel.Name)
					case p == "runtime" && (sel.Sel.Name == "Stack" || sel.Sel.Name == "Caller" || sel.Sel.Name == "Callers" || sel.Sel.Name == "FuncForPC"):
						add(fn, "stack")
						addDetail(fn, "stack", "runtime."+sel.Sel.Name)
					case p == "fmt":
						if len(x.Args) > 0 {
							if lit, ok := x.Args[0].(*ast.BasicLit); ok && lit.Kind == token.STRING && strings.Contains(lit.Value, "%p") {
								add(fn, "ptrfmt")
								addDetail(fn, "ptrfmt", "%p")
							}
						}
						for _, a := range x.Args {
							if tv, ok := info.Types[a]; ok && tv.Type != nil && addressPrinted(tv.Type) {
								add(fn, "ptrfmt")
								addDetail(fn, "ptrfmt", shortType(tv.Type))
							}
						}
						for _, a := range x.Args {
							if tv, ok := info.Types[a]; ok && isFloat(tv.Type) {
								add(fn, "floatfmt")
								if len(x.Args) > 0 {
									if lit, ok := x.Args[0].(*ast.BasicLit); ok && lit.Kind == token.STRING {
										addDetail(fn, "floatfmt", strings.Trim(lit.Value, "\"`"))
									} else {
										addDetail(fn, "floatfmt", "?")
									}
								}
								break
							}
						}
					}
					if p := pkgOf(sel.X); p == "" {
						switch sel.Sel.Name {
						case "Float64", "Float32":
							if tv, ok := info.Types[x]; ok && tv.Type != nil {
								add(fn, "float")
							}
						case "MapKeys", "MapRange":
							add(fn, "mapkeys")
						}
					}
				}
			}
			return true
		})
	}
	for _, d := range af.Decls {
		switch x := d.(type) {
		case *ast.FuncDecl:
			if x.Body != nil {
				visit(funcName(x), x.Body)
			}
		case *ast.GenDecl:
			visit("<package-level>", x)
		}
	}
}

// constValue type-checks one package again and returns the exact value of an integer constant
// (x/crosschain/types.MaxOracleSize bounds the number of summands of PowerDiff).
func constValue(targets []listPkg, fset *token.FileSet, imp types.Importer, pkgPath, name string) string {
	for _, p := range targets {
		if p.ImportPath != pkgPath {
			continue
		}
		var files []*ast.File
		for _, f := range p.GoFiles {
			if strings.HasSuffix(f, "_test.go") {
				continue
			}
			af, err := parser.ParseFile(fset, filepath.Join(p.Dir, f), nil, 0)
			if err != nil {
				die("parse %s: %v", f, err)
			}
			files = append(files, af)
		}
		conf := types.Config{Importer: imp, FakeImportC: true, Error: func(err error) {}}
		pkg, err := conf.Check(p.ImportPath, fset, files, nil)
		if err != nil {
			die("type-check %s: %v", p.ImportPath, err)
		}
		obj := pkg.Scope().Lookup(name)
		c, ok := obj.(*types.Const)
		if !ok {
			die("%s.%s is not a constant any more", pkgPath, name)
		}
		return c.Val().ExactString()
	}
	die("package %s not found", pkgPath)
	return ""
}

func mutableKind(t types.Type) bool {
	switch u := t.Underlying().(type) {
	case *types.Map, *types.Slice, *types.Chan:
		return true
	case *types.Pointer:
		_ = u
		return true
	}
	return false
}

func shortType(t types.Type) string {
	return types.TypeString(t, func(p *types.Package) string { return p.Name() })
}

// scanState lists process-level mutable state in packages under x/.
func scanState(af *ast.File, fname, pkgPath string, info *types.Info, counts map[site]int, details map[site][]string, sf *stateFacts) {
	keeperPkg := strings.HasSuffix(pkgPath, "/keeper") || strings.Contains(pkgPath, "/keeper/")
	for _, d := range af.Decls {
		gd, ok := d.(*ast.GenDecl)
		if !ok {
			continue
		}
		for _, sp := range gd.Specs {
			switch x := sp.(type) {
			case *ast.ValueSpec:
				if gd.Tok != token.VAR {
					continue
				}
				for _, nm := range x.Names {
					if nm.Name == "_" {
						continue
					}
					obj := info.Defs[nm]
					if obj == nil || obj.Type() == nil || !mutableKind(obj.Type()) {
						continue
					}
					ts := shortType(obj.Type())
					if ts == "*errors.Error" || ts == "[]byte" { // errorsmod.Register values; store key prefixes
						continue
					}
					k := site{fname, "<package-level>", "state"}
					counts[k]++
					details[k] = append(details[k], nm.Name+":"+ts)
					sf.members[pkgPath+"."+nm.Name] = fname + "|<package-level>|" + nm.Name
				}
			case *ast.TypeSpec:
				st, ok := x.Type.(*ast.StructType)
				if !ok || !(keeperPkg || strings.Contains(x.Name.Name, "Keeper")) {
					continue
				}
				for _, f := range st.Fields.List {
					tv, ok := info.Types[f.Type]
					if !ok || tv.Type == nil || !mutableKind(tv.Type) {
						continue
					}
					names := []string{"(embedded)"}
					if len(f.Names) > 0 {
						names = nil
						for _, n := range f.Names {
							names = append(names, n.Name)
						}
					}
					for _, n := range names {
						k := site{fname, "type " + x.Name.Name, "state"}
						counts[k]++
						details[k] = append(details[k], n+":"+shortType(tv.Type))
						if n != "(embedded)" {
							sf.members[pkgPath+"."+x.Name.Name+"."+n] = fname + "|type " + x.Name.Name + "|" + n
						}
					}
				}
			}
		}
	}
}

// ---- who writes the process-level state, and who calls the writers ----

type stateFacts struct {
	members map[string]string      // "pkg.Type.field" / "pkg.var" -> "file|owner|member" of a K_state row
	writes  map[string][][2]string // same key -> (file, func) of every write found anywhere
	calls   map[string][]string    // "pkg.FuncOrMethodName" -> callers "file:func"
	guards  map[string]string      // "pkg.FuncOrMethodName" -> "sealed" (first statement: if x.sealed { panic }) | "seals-first" (first statement: x.Seal())
}

func memberKeyOf(e ast.Expr, info *types.Info) string {
	for {
		switch x := e.(type) {
		case *ast.IndexExpr:
			e = x.X
			continue
		case *ast.ParenExpr:
			e = x.X
			continue
		case *ast.StarExpr:
			e = x.X
			continue
		}
		break
	}
	switch x := e.(type) {
	case *ast.SelectorExpr:
		if sel, ok := info.Selections[x]; ok && sel.Kind() == types.FieldVal {
			if v, ok := sel.Obj().(*types.Var); ok && v.Pkg() != nil {
				t := sel.Recv()
				if pt, ok := t.(*types.Pointer); ok {
					t = pt.Elem()
				}
				if nt, ok := t.(*types.Named); ok {
					return v.Pkg().Path() + "." + nt.Obj().Name() + "." + v.Name()
				}
			}
		}
		if id, ok := x.X.(*ast.Ident); ok { // pkg.Var
			if _, isPkg := info.Uses[id].(*types.PkgName); isPkg {
				if v, ok := info.Uses[x.Sel].(*types.Var); ok && v.Pkg() != nil {
					return v.Pkg().Path() + "." + v.Name()
				}
			}
		}
	case *ast.Ident:
		if v, ok := info.Uses[x].(*types.Var); ok && v.Pkg() != nil && v.Parent() == v.Pkg().Scope() {
			return v.Pkg().Path() + "." + v.Name()
		}
	}
	return ""
}

func scanWrites(af *ast.File, fname, pkgPath string, info *types.Info, sf *stateFacts) {
	for _, d := range af.Decls {
		fd, ok := d.(*ast.FuncDecl)
		if !ok || fd.Body == nil {
			continue
		}
		fn := funcName(fd)
		fkey := pkgPath + "." + fd.Name.Name
		if len(fd.Body.List) > 0 {
			switch x := fd.Body.List[0].(type) {
			case *ast.IfStmt:
				if sel, ok := x.Cond.(*ast.SelectorExpr); ok && sel.Sel.Name == "sealed" && len(x.Body.List) == 1 {
					if es, ok := x.Body.List[0].(*ast.ExprStmt); ok {
						if c, ok := es.X.(*ast.CallExpr); ok {
							if id, ok := c.Fun.(*ast.Ident); ok && id.Name == "panic" {
								sf.guards[fkey] = "sealed"
							}
						}
					}
				}
			case *ast.ExprStmt:
				if c, ok := x.X.(*ast.CallExpr); ok {
					if sel, ok := c.Fun.(*ast.SelectorExpr); ok && sel.Sel.Name == "Seal" && len(c.Args) == 0 {
						sf.guards[fkey] = "seals-first"
					}
				}
			}
		}
		note := func(e ast.Expr) {
			if k := memberKeyOf(e, info); k != "" {
				sf.writes[k] = append(sf.writes[k], [2]string{fname, fn})
			}
		}
		ast.Inspect(fd.Body, func(n ast.Node) bool {
			switch x := n.(type) {
			case *ast.AssignStmt:
				if x.Tok != token.DEFINE {
					for _, l := range x.Lhs {
						note(l)
					}
				}
			case *ast.IncDecStmt:
				note(x.X)
			case *ast.CompositeLit: // &router{routes: ...}
				if tv, ok := info.Types[x]; ok && tv.Type != nil {
					t := tv.Type
					if nt, ok := t.(*types.Named); ok && nt.Obj().Pkg() != nil {
						for _, el := range x.Elts {
							if kv, ok := el.(*ast.KeyValueExpr); ok {
								if id, ok := kv.Key.(*ast.Ident); ok {
									k := nt.Obj().Pkg().Path() + "." + nt.Obj().Name() + "." + id.Name
									sf.writes[k] = append(sf.writes[k], [2]string{fname, fn})
								}
							}
						}
					}
				}
			case *ast.CallExpr:
				if id, ok := x.Fun.(*ast.Ident); ok && id.Name == "delete" && len(x.Args) == 2 {
					note(x.Args[0])
				}
				// callee
				var obj types.Object
				switch f := x.Fun.(type) {
				case *ast.SelectorExpr:
					if sel, ok := info.Selections[f]; ok {
						obj = sel.Obj()
					} else {
						obj = info.Uses[f.Sel]
					}
				case *ast.Ident:
					obj = info.Uses[f]
				}
				if fo, ok := obj.(*types.Func); ok && fo.Pkg() != nil && strings.HasPrefix(fo.Pkg().Path(), fxModule+"/") {
					k := fo.Pkg().Path() + "." + fo.Name()
					sf.calls[k] = append(sf.calls[k], fname+":"+fn)
				}
			}
			return true
		})
	}
}

func (sf *stateFacts) emit(sb *strings.Builder) {
	uniq := func(l []string) []string {
		sort.Strings(l)
		var out []string
		for i, x := range l {
			if i == 0 || x != l[i-1] {
				out = append(out, x)
			}
		}
		return out
	}
	var wl []string
	writerFns := map[string]bool{}
	var mkeys []string
	for k := range sf.members {
		mkeys = append(mkeys, k)
	}
	sort.Strings(mkeys)
	for _, k := range mkeys {
		for _, w := range sf.writes[k] {
			wl = append(wl, fmt.Sprintf("(\"%s\", \"%s\", \"%s\")", sf.members[k], w[0], w[1]))
			// the writer's call key: package path of the member + bare function name
			pkg := k[:strings.LastIndex(k, ".")]
			if strings.Count(sf.members[k], "|type ") > 0 {
				pkg = pkg[:strings.LastIndex(pkg, ".")]
			}
			name := w[1]
			if i := strings.LastIndex(name, "."); i >= 0 {
				name = name[i+1:]
			}
			writerFns[pkg+"."+name] = true
		}
	}
	wl = uniq(wl)
	sb.WriteString("(* every write to a K_state member: (file|owner|member, writer file, writer function) *)\nDefinition gen_state_writers : list (string * string * string) :=\n [" + strings.Join(wl, ";\n  ") + "].\n\n")
	var gl, cl []string
	var wk []string
	for k := range writerFns {
		wk = append(wk, k)
	}
	sort.Strings(wk)
	short := func(k string) string { return strings.TrimPrefix(k, fxModule+"/") }
	for _, k := range wk {
		g := sf.guards[k]
		gl = append(gl, fmt.Sprintf("(\"%s\", \"%s\")", short(k), g))
		for _, c := range uniq(append([]string{}, sf.calls[k]...)) {
			cl = append(cl, fmt.Sprintf("(\"%s\", \"%s\")", short(k), c))
		}
	}
	sb.WriteString("(* writer function -> \"sealed\" when its first statement is `if x.sealed { panic(..) }` *)\nDefinition gen_writer_guards : list (string * string) :=\n [" + strings.Join(gl, ";\n  ") + "].\n\n")
	sb.WriteString("(* writer function -> every function that calls it (fx-core packages under x, app, ante, types) *)\nDefinition gen_writer_callers : list (string * string) :=\n [" + strings.Join(cl, ";\n  ") + "].\n\n")
	var sl []string
	for k, g := range sf.guards {
		if g == "seals-first" {
			sl = append(sl, "\""+short(k)+"\"")
		}
	}
	sort.Strings(sl)
	sb.WriteString("(* functions whose first statement seals the router they were handed *)\nDefinition gen_seals_first : list string :=\n [" + strings.Join(sl, "; ") + "].\n\n")
}

// addressPrinted: fmt prints a value of this static type as an address
func addressPrinted(t types.Type) bool {
	switch u := t.Underlying().(type) {
	case *types.Chan:
		return true
	case *types.Signature:
		return true
	case *types.Basic:
		return u.Kind() == types.UnsafePointer
	case *types.Pointer:
		if _, isNamed := t.(*types.Named); isNamed {
			return false
		}
		if n, ok := u.Elem().(*types.Named); ok { // pointers to named types usually have String()/Error() or print &{...}
			_ = n
			return false
		}
		switch u.Elem().Underlying().(type) {
		case *types.Struct, *types.Array, *types.Slice, *types.Map:
			return false
		}
		return true
	}
	return false
}

// loopShape classifies the body of a range over a map by what it writes OUTSIDE itself:
//
//	collect-then-sort        only `X = append(X, e)` for one slice X, and X is sorted later in the same function
//	write-keyed-by-element   only `M[i] = e` into one other map M
//	accumulate-exact         only `A = A.Add(e)` / `M[k] = M[k].Add(e)` / `A += e` on non-float accumulators
//	accumulate-float         the same with a float accumulator
//	other                    anything else: another assignment shape, a call statement (e.g. emitting an event, a store
//	                         write), return / break / goto / defer / go / send inside the loop
//
// Calls inside expressions (right-hand sides, conditions) are taken to be effect-free; call STATEMENTS are not.
func loopShape(rs *ast.RangeStmt, fnBody ast.Node, info *types.Info) string {
	inLoop := func(obj types.Object) bool {
		return obj != nil && obj.Pos() >= rs.Pos() && obj.Pos() <= rs.End()
	}
	rootObj := func(e ast.Expr) types.Object {
		for {
			switch x := e.(type) {
			case *ast.IndexExpr:
				e = x.X
				continue
			case *ast.SelectorExpr:
				e = x.X
				continue
			case *ast.StarExpr:
				e = x.X
				continue
			case *ast.ParenExpr:
				e = x.X
				continue
			case *ast.Ident:
				if o := info.Uses[x]; o != nil {
					return o
				}
				return info.Defs[x]
			}
			return nil
		}
	}
	other := false
	var appends, keyed, accs []string
	floatAcc := false
	ast.Inspect(rs.Body, func(n ast.Node) bool {
		switch x := n.(type) {
		case *ast.FuncLit:
			other = true
			return false
		case *ast.ExprStmt, *ast.ReturnStmt, *ast.DeferStmt, *ast.GoStmt, *ast.SendStmt:
			other = true
		case *ast.BranchStmt:
			if x.Tok != token.CONTINUE {
				other = true
			}
		case *ast.IncDecStmt:
			if !inLoop(rootObj(x.X)) {
				other = true
			}
		case *ast.AssignStmt:
			if x.Tok == token.DEFINE {
				return true
			}
			for i, l := range x.Lhs {
				if id, ok := l.(*ast.Ident); ok && id.Name == "_" {
					continue
				}
				if inLoop(rootObj(l)) {
					continue
				}
				ls := nodeSrc(l)
				var r ast.Expr
				if len(x.Rhs) == len(x.Lhs) {
					r = x.Rhs[i]
				}
				tv := info.Types[l]
				switch {
				case x.Tok == token.ADD_ASSIGN:
					accs = append(accs, ls)
					if isFloat(tv.Type) {
						floatAcc = true
					}
				case x.Tok == token.ASSIGN && r != nil:
					rs := nodeSrc(r)
					_, isIdx := l.(*ast.IndexExpr)
					switch {
					case strings.HasPrefix(rs, "append("+ls+", "):
						appends = append(appends, ls)
					case strings.HasPrefix(rs, ls+".Add("):
						accs = append(accs, ls)
					case isIdx:
						if ie := l.(*ast.IndexExpr); true {
							keyed = append(keyed, nodeSrc(ie.X))
						}
					default:
						other = true
					}
				default:
					other = true
				}
			}
		}
		return true
	})
	same := func(l []string) bool {
		for _, x := range l {
			if x != l[0] {
				return false
			}
		}
		return len(l) > 0
	}
	switch {
	case other:
		return "other"
	case len(appends) > 0 && len(keyed) == 0 && len(accs) == 0 && same(appends):
		sorted := false
		ast.Inspect(fnBody, func(n ast.Node) bool {
			if c, ok := n.(*ast.CallExpr); ok && c.Pos() > rs.End() && len(c.Args) > 0 {
				f := nodeSrc(c.Fun)
				if (f == "sort.Slice" || f == "sort.SliceStable" || f == "sort.Strings" || f == "sort.Sort") && nodeSrc(c.Args[0]) == appends[0] {
					sorted = true
				}
			}
			return true
		})
		if sorted {
			return "collect-then-sort"
		}
		return "other"
	case len(keyed) > 0 && len(appends) == 0 && len(accs) == 0 && same(keyed):
		return "write-keyed-by-element"
	case len(accs) > 0 && len(appends) == 0 && len(keyed) == 0:
		if floatAcc {
			return "accumulate-float"
		}
		return "accumulate-exact"
	case len(accs) == 0 && len(appends) == 0 && len(keyed) == 0:
		return "no-outer-write"
	}
	return "other"
}

func nodeSrc(n ast.Node) string {
	var b strings.Builder
	_ = printer.Fprint(&b, token.NewFileSet(), n)
	return b.String()
}
