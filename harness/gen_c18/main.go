// gen_c18: translator for property C18 (and the receive part of C19).
//
// Reads the CURRENT sources of the functions that host a tolerated-failure boundary and emits, for each of
// them, the order of the events the model coq/model/M_Cache.v transcribes: where the cache branch is taken,
// which calls receive the cache context and which the outer one, where the branch is written (and under which
// error test), where the function returns.  Output: Gen_C18.v with one `list string` per function.
// Prop_C18.v proves that these lists are the ones the model was written from (M_CacheShape.v); any change of
// order / context / condition in the sources changes the generated list and breaks that theorem.
//
// Token vocabulary (one list of strings per function):
//
//	branch / commit / defer-commit / defer-recover       cache branch taken, written, deferred write, deferred recover()
//	call:cache:<recv>.<F> / call:outer:<recv>.<F>        a call that is handed the branch / the outer context; the callee is
//	                                                     named WITH its receiver chain (k.bankKeeper.SendCoins, im.Keeper.OnRecvPacket)
//	kv-set:<class> / kv-delete:<class>                   a direct store write through ctx.KVStore(…) (class = cache | outer)
//	event                                                EmitEvent / EmitEvents / EmitTypedEvent
//	set:<lhs>                                            assignment to a field (att.Observed = …, proposal.Status = …)
//	if(…){ } else{ loop{ func{ case(…){ return* panic continue break
//
// Besides the listed boundary functions the translator follows their callees TWO levels down (same package, resolved by
// receiver type and name) and emits their shapes as `deep_shapes`, plus `deep_unresolved` — the calls that carry a context
// into another module (keeper interfaces) and are not followed.
package main

import (
	"fmt"
	"go/ast"
	"go/parser"
	"go/token"
	"os"
	"os/exec"
	"path/filepath"
	"sort"
	"strings"
)

type target struct {
	name string // Coq identifier
	file string // path (relative to the repo, or absolute)
	fn   string // function name
	recv string // receiver type name ("" = any)
}

func main() {
	repo := os.Getenv("VERIF_REPO")
	if repo == "" {
		repo = "/repo"
	}
	out := os.Getenv("VERIF_OUT")
	if out == "" {
		out = "."
	}
	ibc := ibcGoDir(repo)
	targets := []target{
		{"shape_processAttestation", "x/crosschain/keeper/attestation.go", "processAttestation", "Keeper"},
		{"shape_TryAttestation", "x/crosschain/keeper/attestation.go", "TryAttestation", "Keeper"},
		{"shape_BridgeCallHandler", "x/crosschain/keeper/bridge_call_in.go", "BridgeCallHandler", "Keeper"},
		{"shape_BridgeCallEvm", "x/crosschain/keeper/bridge_call_in.go", "BridgeCallEvm", "Keeper"},
		{"shape_BridgeCallFailedRefund", "x/crosschain/keeper/bridge_call_in.go", "BridgeCallFailedRefund", "Keeper"},
		{"shape_AddOutgoingBridgeCall", "x/crosschain/keeper/bridge_call_out.go", "AddOutgoingBridgeCall", "Keeper"},
		{"shape_AttestationHandler", "x/crosschain/keeper/attestation_handler.go", "AttestationHandler", "Keeper"},
		{"shape_AddBridgeTokenExecuted", "x/crosschain/keeper/bridge_token.go", "AddBridgeTokenExecuted", "Keeper"},
		{"shape_UpdateOracleSetExecuted", "x/crosschain/keeper/oracle_set.go", "UpdateOracleSetExecuted", "Keeper"},
		{"shape_OutgoingTxBatchExecuted", "x/crosschain/keeper/batch.go", "OutgoingTxBatchExecuted", "Keeper"},
		{"shape_SavePendingExecuteClaim", "x/crosschain/keeper/pending_execute_claim.go", "SavePendingExecuteClaim", "Keeper"},
		{"shape_SendToFxExecuted", "x/crosschain/keeper/send_to_fx.go", "SendToFxExecuted", "Keeper"},
		{"shape_transferIBCHandler", "x/crosschain/keeper/send_to_fx.go", "transferIBCHandler", "Keeper"},
		{"shape_ExecuteClaim", "x/crosschain/keeper/attestation_handler.go", "ExecuteClaim", "Keeper"},
		{"shape_govEndBlocker", "x/gov/abci.go", "EndBlocker", ""},
		{"shape_mwOnRecvPacket", "x/ibc/middleware/ibc_middleware.go", "OnRecvPacket", "IBCMiddleware"},
		{"shape_mwOnAcknowledgementPacket", "x/ibc/middleware/ibc_middleware.go", "OnAcknowledgementPacket", "IBCMiddleware"},
		{"shape_mwOnTimeoutPacket", "x/ibc/middleware/ibc_middleware.go", "OnTimeoutPacket", "IBCMiddleware"},
		{"shape_relayOnRecvPacket", "x/ibc/middleware/keeper/relay.go", "OnRecvPacket", "Keeper"},
		{"shape_relayOnAcknowledgementPacket", "x/ibc/middleware/keeper/relay.go", "OnAcknowledgementPacket", "Keeper"},
		{"shape_AfterIBCAckSuccess", "x/crosschain/keeper/many_to_one.go", "AfterIBCAckSuccess", "Keeper"},
		{"shape_IbcRefund", "x/erc20/keeper/transfer_relation.go", "IbcRefund", "Keeper"},
		{"shape_HandleOutgoingBridgeCallRefund", "x/crosschain/keeper/bridge_call_refund.go", "HandleOutgoingBridgeCallRefund", "Keeper"},
		{"shape_bridgeCallTransferTokens", "x/crosschain/keeper/bridge_call_in.go", "bridgeCallTransferTokens", "Keeper"},
		{"shape_cleanupTimeOutBridgeCall", "x/crosschain/keeper/abci.go", "cleanupTimeOutBridgeCall", "Keeper"},
		{"shape_BridgeCallResultHandler", "x/crosschain/keeper/bridge_call_out.go", "BridgeCallResultHandler", "Keeper"},
		{"shape_coreRecvPacket", filepath.Join(ibc, "modules/core/keeper/msg_server.go"), "RecvPacket", "Keeper"},
	}
	var sb strings.Builder
	sb.WriteString("(* generated by harness/gen_c18 from the sources under $VERIF_REPO and the ibc-go module in use; do not edit *)\n")
	sb.WriteString("From Coq Require Import String List.\nImport ListNotations.\nOpen Scope string_scope.\n\n")
	for _, t := range targets {
		path := t.file
		if !filepath.IsAbs(path) {
			path = filepath.Join(repo, path)
		}
		toks, err := shape(path, t.fn, t.recv)
		if err != nil {
			fmt.Fprintln(os.Stderr, "gen_c18:", err)
			os.Exit(1)
		}
		sb.WriteString(fmt.Sprintf("Definition %s : list string :=\n  [", t.name))
		for i, k := range toks {
			if i > 0 {
				sb.WriteString(";\n   ")
			}
			sb.WriteString("\"" + strings.ReplaceAll(k, "\"", "'") + "\"")
		}
		sb.WriteString("].\n\n")
	}
	// ---- two levels below the boundary functions --------------------------------------------------------------------
	type item struct {
		key  string
		toks []string
	}
	isTarget := map[string]bool{}
	for _, td := range targetDecls {
		_, rt := recvOf(td.fd)
		isTarget[td.dir+":"+rt+"."+td.fd.Name.Name] = true
	}
	seen := map[string]bool{}
	unresolved := map[string]bool{}
	var deep []item
	type frontier struct {
		dir string
		fd  *ast.FuncDecl
	}
	var level []frontier
	for _, td := range targetDecls {
		level = append(level, frontier{td.dir, td.fd})
	}
	for depth := 1; depth <= 2; depth++ {
		var next []frontier
		for _, fr := range level {
			p := loadPkg(fr.dir)
			for _, q := range shapeOf(fr.fd).calls {
				callee, key, ok := resolve(p, fr.fd, q)
				if !ok {
					if strings.Count(q, ".") >= 2 || !strings.Contains(q, ".") || strings.HasPrefix(q, "im.") { // leaves the module / package
						unresolved[q] = true
					}
					continue
				}
				full := fr.dir + ":" + key
				if seen[full] || isTarget[full] {
					continue
				}
				seen[full] = true
				rel, _ := filepath.Rel(repo, fr.dir)
				if strings.HasPrefix(rel, "..") {
					rel = "ibc-go/" + filepath.Base(fr.dir)
				}
				deep = append(deep, item{rel + ":" + key, shapeOf(callee).toks})
				next = append(next, frontier{fr.dir, callee})
			}
		}
		level = next
	}
	sort.Slice(deep, func(i, j int) bool { return deep[i].key < deep[j].key })
	sb.WriteString("Definition deep_shapes : list (string * list string) :=\n  [")
	for i, it := range deep {
		if i > 0 {
			sb.WriteString(";\n   ")
		}
		sb.WriteString("(\"" + it.key + "\", [")
		for j, k := range it.toks {
			if j > 0 {
				sb.WriteString("; ")
			}
			sb.WriteString("\"" + strings.ReplaceAll(k, "\"", "'") + "\"")
		}
		sb.WriteString("])")
	}
	sb.WriteString("].\n\n")
	var un []string
	for q := range unresolved {
		un = append(un, q)
	}
	sort.Strings(un)
	sb.WriteString("Definition deep_unresolved : list string :=\n  [")
	for i, q := range un {
		if i > 0 {
			sb.WriteString("; ")
		}
		sb.WriteString("\"" + q + "\"")
	}
	sb.WriteString("].\n")
	if err := os.WriteFile(filepath.Join(out, "Gen_C18.v"), []byte(sb.String()), 0o644); err != nil {
		fmt.Fprintln(os.Stderr, err)
		os.Exit(1)
	}
}

func ibcGoDir(repo string) string {
	cmd := exec.Command("go", "list", "-m", "-f", "{{.Dir}}", "github.com/cosmos/ibc-go/v8")
	cmd.Dir = repo
	cmd.Env = append(os.Environ(), "GOFLAGS=-mod=mod", "GOPROXY=off", "GOSUMDB=off", "GOTOOLCHAIN=local")
	b, err := cmd.Output()
	if err != nil || strings.TrimSpace(string(b)) == "" {
		fmt.Fprintln(os.Stderr, "gen_c18: cannot locate the ibc-go module used by the repository:", err)
		os.Exit(1)
	}
	return strings.TrimSpace(string(b))
}

type walker struct {
	cache  map[string]bool   // identifiers bound to a cache context
	commit map[string]bool   // identifiers bound to its write function
	store  map[string]string // identifiers bound to a KVStore -> class of the context it was taken from
	toks   []string
	calls  []string // qualified names of the callees that were handed a context
}

// ---- the package of a function: all its (non-test) declarations, for following callees --------------------------------

type pkgInfo struct {
	funcs map[string]*ast.FuncDecl // "Recv.Name" or ".Name"
}

var pkgCache = map[string]*pkgInfo{}

func loadPkg(dir string) *pkgInfo {
	if p, ok := pkgCache[dir]; ok {
		return p
	}
	p := &pkgInfo{funcs: map[string]*ast.FuncDecl{}}
	fset := token.NewFileSet()
	pkgs, err := parser.ParseDir(fset, dir, func(fi os.FileInfo) bool { return !strings.HasSuffix(fi.Name(), "_test.go") }, 0)
	if err == nil {
		for _, pk := range pkgs {
			for _, f := range pk.Files {
				for _, d := range f.Decls {
					if fd, ok := d.(*ast.FuncDecl); ok && fd.Body != nil {
						r := ""
						if fd.Recv != nil && len(fd.Recv.List) > 0 {
							r = typeName(fd.Recv.List[0].Type)
						}
						p.funcs[r+"."+fd.Name.Name] = fd
					}
				}
			}
		}
	}
	pkgCache[dir] = p
	return p
}

func recvOf(fd *ast.FuncDecl) (varName, typ string) {
	if fd.Recv == nil || len(fd.Recv.List) == 0 {
		return "", ""
	}
	if len(fd.Recv.List[0].Names) > 0 {
		varName = fd.Recv.List[0].Names[0].Name
	}
	return varName, typeName(fd.Recv.List[0].Type)
}

func shapeOf(fd *ast.FuncDecl) *walker {
	w := &walker{cache: map[string]bool{}, commit: map[string]bool{}, store: map[string]string{}}
	w.block(fd.Body.List)
	return w
}

// resolve a qualified callee name seen inside fd (package dir): "k.Foo" with k the receiver variable -> method Foo of the same
// type; "foo" -> package function; anything else (k.bankKeeper.X, im.IBCModule.X, …) leaves the package
func resolve(p *pkgInfo, fd *ast.FuncDecl, qual string) (*ast.FuncDecl, string, bool) {
	rv, rt := recvOf(fd)
	parts := strings.Split(qual, ".")
	switch {
	case len(parts) == 1:
		if c, ok := p.funcs["."+parts[0]]; ok {
			return c, "." + parts[0], true
		}
	case len(parts) == 2 && parts[0] == rv && rv != "":
		if c, ok := p.funcs[rt+"."+parts[1]]; ok {
			return c, rt + "." + parts[1], true
		}
	}
	return nil, "", false
}

var targetDecls []struct {
	dir string
	fd  *ast.FuncDecl
}

func shape(path, fn, recv string) ([]string, error) {
	fset := token.NewFileSet()
	f, err := parser.ParseFile(fset, path, nil, 0)
	if err != nil {
		return nil, err
	}
	for _, d := range f.Decls {
		fd, ok := d.(*ast.FuncDecl)
		if !ok || fd.Name.Name != fn || fd.Body == nil {
			continue
		}
		if recv != "" {
			if fd.Recv == nil || len(fd.Recv.List) == 0 || typeName(fd.Recv.List[0].Type) != recv {
				continue
			}
		} else if fd.Recv != nil {
			continue
		}
		w := shapeOf(fd)
		targetDecls = append(targetDecls, struct {
			dir string
			fd  *ast.FuncDecl
		}{filepath.Dir(path), fd})
		return w.toks, nil
	}
	return nil, fmt.Errorf("function %s (receiver %q) not found in %s", fn, recv, path)
}

func typeName(e ast.Expr) string {
	switch t := e.(type) {
	case *ast.Ident:
		return t.Name
	case *ast.StarExpr:
		return typeName(t.X)
	}
	return ""
}

func (w *walker) emit(s string) { w.toks = append(w.toks, s) }

func (w *walker) block(list []ast.Stmt) {
	for _, s := range list {
		w.stmt(s)
	}
}

func (w *walker) stmt(s ast.Stmt) {
	switch n := s.(type) {
	case *ast.AssignStmt:
		if len(n.Rhs) == 1 {
			if c, ok := n.Rhs[0].(*ast.CallExpr); ok && calleeName(c) == "CacheContext" && len(n.Lhs) == 2 {
				if a, ok := n.Lhs[0].(*ast.Ident); ok {
					w.cache[a.Name] = true
				}
				if b, ok := n.Lhs[1].(*ast.Ident); ok {
					w.commit[b.Name] = true
				}
				w.emit("branch")
				return
			}
			// store := ctx.KVStore(key) / prefix.NewStore(ctx.KVStore(key), …): remember which context the store belongs to
			if cls := w.storeClass(n.Rhs[0]); cls != "" && len(n.Lhs) == 1 {
				if a, ok := n.Lhs[0].(*ast.Ident); ok {
					w.store[a.Name] = cls
				}
			}
		}
		for _, r := range n.Rhs {
			w.expr(r)
		}
		if n.Tok == token.ASSIGN {
			for _, l := range n.Lhs {
				if sel, ok := l.(*ast.SelectorExpr); ok { // a field of a value that is (going to be) stored
					w.emit("set:" + exprText(sel))
				}
			}
		}
	case *ast.ExprStmt:
		w.expr(n.X)
	case *ast.DeferStmt:
		if id, ok := n.Call.Fun.(*ast.Ident); ok && w.commit[id.Name] {
			w.emit("defer-commit")
			return
		}
		// a deferred function that calls recover() turns a panic of the statements after it into a normal return
		if fl, ok := n.Call.Fun.(*ast.FuncLit); ok {
			recovers := false
			ast.Inspect(fl.Body, func(x ast.Node) bool {
				if c, ok := x.(*ast.CallExpr); ok {
					if id, ok := c.Fun.(*ast.Ident); ok && id.Name == "recover" {
						recovers = true
					}
				}
				return true
			})
			if recovers {
				w.emit("defer-recover")
			}
		}
		// deferred telemetry etc. is not part of the shape
	case *ast.IfStmt:
		if n.Init != nil {
			w.stmt(n.Init)
		}
		w.expr(n.Cond)
		w.emit("if(" + w.cond(n.Cond) + "){")
		w.block(n.Body.List)
		w.emit("}")
		if n.Else != nil {
			w.emit("else{")
			switch e := n.Else.(type) {
			case *ast.BlockStmt:
				w.block(e.List)
			default:
				w.stmt(e)
			}
			w.emit("}")
		}
	case *ast.ReturnStmt:
		kind := "return"
		for _, r := range n.Results {
			w.expr(r)
			if id, ok := r.(*ast.Ident); ok && id.Name == "err" {
				kind = "return-err"
			}
			if c, ok := r.(*ast.CallExpr); ok && calleeName(c) == "NewErrorAcknowledgement" {
				kind = "return-errack"
			}
			if c, ok := r.(*ast.CallExpr); ok && kind == "return" { // a freshly made error: ErrX.Wrap(f)(…), errors.New, fmt.Errorf
				if n := calleeName(c); strings.HasPrefix(n, "Wrap") || n == "Errorf" || (n == "New" && strings.Contains(exprText(c.Fun), "errors")) {
					kind = "return-newerr"
				}
			}
			if id, ok := r.(*ast.Ident); ok && id.Name == "ack" {
				kind = "return-ack"
			}
		}
		w.emit(kind)
	case *ast.ForStmt:
		w.emit("loop{")
		w.block(n.Body.List)
		w.emit("}")
	case *ast.RangeStmt:
		w.emit("loop{")
		w.block(n.Body.List)
		w.emit("}")
	case *ast.SwitchStmt:
		if n.Init != nil {
			w.stmt(n.Init)
		}
		w.block(n.Body.List)
	case *ast.TypeSwitchStmt:
		w.block(n.Body.List)
	case *ast.CaseClause:
		label := "default"
		if len(n.List) > 0 {
			label = exprText(n.List[0])
		}
		w.emit("case(" + label + "){")
		w.block(n.Body)
		w.emit("}")
	case *ast.BlockStmt:
		w.block(n.List)
	case *ast.BranchStmt:
		w.emit(strings.ToLower(n.Tok.String()))
	case *ast.DeclStmt, *ast.IncDecStmt, *ast.EmptyStmt, *ast.LabeledStmt, *ast.GoStmt, *ast.SendStmt:
	}
}

func (w *walker) cond(e ast.Expr) string {
	txt := exprText(e)
	switch {
	case txt == "err != nil":
		return "err"
	case txt == "err == nil":
		return "ok"
	case strings.Contains(txt, "("): // a call takes part in the decision (ack.Success(), IsContract(…), DeleteIBCTransferRelation(…))
		return txt
	case strings.Contains(txt, "err"):
		return txt
	}
	return "_"
}

// expr records the calls (in evaluation order of the source text) that carry a context, a commit, or belong
// to the acknowledgement vocabulary
func (w *walker) expr(e ast.Expr) {
	ast.Inspect(e, func(n ast.Node) bool {
		if lit, isLit := n.(*ast.FuncLit); isLit { // callbacks (collections Walk, iterators) are part of the function
			w.emit("func{")
			w.block(lit.Body.List)
			w.emit("}")
			return false
		}
		c, ok := n.(*ast.CallExpr)
		if !ok {
			return true
		}
		name := calleeName(c)
		qual := qualName(c)
		if sel, ok := c.Fun.(*ast.SelectorExpr); ok {
			if sel.Sel.Name == "Set" || sel.Sel.Name == "Delete" {
				cls := ""
				if id, ok := sel.X.(*ast.Ident); ok {
					cls = w.store[id.Name]
				} else {
					cls = w.storeClass(sel.X)
				}
				if cls != "" {
					w.emit("kv-" + strings.ToLower(sel.Sel.Name) + ":" + cls)
				}
			}
			if sel.Sel.Name == "EmitEvent" || sel.Sel.Name == "EmitEvents" || sel.Sel.Name == "EmitTypedEvent" || sel.Sel.Name == "EmitTypedEvents" {
				w.emit("event")
			}
		}
		if id, ok := c.Fun.(*ast.Ident); ok && id.Name == "panic" {
			w.emit("panic")
			return true
		}
		if id, ok := c.Fun.(*ast.Ident); ok && w.commit[id.Name] {
			w.emit("commit")
			return true
		}
		if len(c.Args) > 0 {
			switch w.ctxClass(c.Args[0]) {
			case "cache":
				w.emit("call:cache:" + qual)
				w.calls = append(w.calls, qual)
				for _, a := range c.Args[1:] {
					w.expr(a)
				}
				return false
			case "outer":
				if interesting(name) {
					w.emit("call:outer:" + qual)
					w.calls = append(w.calls, qual)
				}
				for _, a := range c.Args[1:] {
					w.expr(a)
				}
				return false
			}
		}
		return true
	})
}

func (w *walker) ctxClass(a ast.Expr) string {
	class := ""
	ast.Inspect(a, func(n ast.Node) bool {
		if id, ok := n.(*ast.Ident); ok {
			if w.cache[id.Name] {
				class = "cache"
			} else if class == "" && (id.Name == "ctx" || id.Name == "goCtx" || id.Name == "c") {
				class = "outer"
			}
		}
		return true
	})
	return class
}

// calls on the outer context that matter for the position of the boundary (logging, telemetry, getters are noise)
func interesting(name string) bool {
	for _, p := range []string{"Get", "Has", "Is", "Logger", "Iterate", "Unwrap", "With", "New", "String", "Error", "Info", "Debug"} {
		if strings.HasPrefix(name, p) {
			return false
		}
	}
	switch name { // conversions
	case "", "uint64", "int64", "uint32", "int32", "int", "uint", "string", "float32", "float64", "byte", "len", "append":
		return false
	}
	return true
}

// storeClass: e contains a call KVStore(…) on a context -> the class of that context ("" = not a store expression)
func (w *walker) storeClass(e ast.Expr) string {
	cls := ""
	ast.Inspect(e, func(n ast.Node) bool {
		if c, ok := n.(*ast.CallExpr); ok {
			if sel, ok := c.Fun.(*ast.SelectorExpr); ok && (sel.Sel.Name == "KVStore" || sel.Sel.Name == "TransientStore") {
				cls = w.ctxClass(sel.X)
				if cls == "" {
					cls = "outer"
				}
			}
		}
		return true
	})
	return cls
}

// qualName: the callee with its receiver chain when that chain is a plain path of identifiers (k.bankKeeper.SendCoins)
func qualName(c *ast.CallExpr) string {
	if sel, ok := c.Fun.(*ast.SelectorExpr); ok {
		path := sel.Sel.Name
		x := sel.X
		for {
			switch t := x.(type) {
			case *ast.Ident:
				return t.Name + "." + path
			case *ast.SelectorExpr:
				path = t.Sel.Name + "." + path
				x = t.X
				continue
			}
			return sel.Sel.Name
		}
	}
	return calleeName(c)
}

func calleeName(c *ast.CallExpr) string {
	switch f := c.Fun.(type) {
	case *ast.SelectorExpr:
		return f.Sel.Name
	case *ast.Ident:
		return f.Name
	}
	return ""
}

func exprText(e ast.Expr) string {
	switch t := e.(type) {
	case *ast.Ident:
		return t.Name
	case *ast.BasicLit:
		return t.Value
	case *ast.SelectorExpr:
		return exprText(t.X) + "." + t.Sel.Name
	case *ast.CallExpr:
		var as []string
		for _, a := range t.Args {
			as = append(as, exprText(a))
		}
		return exprText(t.Fun) + "(" + strings.Join(as, ",") + ")"
	case *ast.BinaryExpr:
		return exprText(t.X) + " " + t.Op.String() + " " + exprText(t.Y)
	case *ast.UnaryExpr:
		return t.Op.String() + exprText(t.X)
	case *ast.ParenExpr:
		return "(" + exprText(t.X) + ")"
	case *ast.StarExpr:
		return "*" + exprText(t.X)
	case *ast.IndexExpr:
		return exprText(t.X) + "[" + exprText(t.Index) + "]"
	case *ast.TypeAssertExpr:
		return exprText(t.X) + ".(type)"
	}
	return "_"
}
