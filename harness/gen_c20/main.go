// gen_c20: translator for the validation half of property C20.  Reads the CURRENT tree under $VERIF_REPO
// (default /repo) with go/ast and writes coq/gen/Gen_MsgFields.v:
//
//		gen_types          every struct type in x/*/types and types/ that (a) is a message (name starts with Msg),
//		                   (b) has a ValidateBasic()/Validate() method, or (c) is a precompile argument struct (*Args):
//		                   its field list (name, Go type, nil-ability kind) and the name of its validator ("" if none)
//		gen_panic_sites    every panic( / Must*( call inside a method or function of those packages whose name is
//		                   ValidateBasic, Validate, validateBasic, GetSigners, GetSignBytes, Get*/Must*/Is* (accessor
//		                   style, value or pointer receiver) — the places where attacker-controlled text meets a panic
//		gen_precompile_methods   (contract, ABI method name) for every abi method a precompile method struct binds
//		gen_ante_decorators      the decorator constructor calls of ante/handler_options.go:newCosmosAnteHandler, in order
//
//	  gen_eth_ante_steps       the ethante.* calls and trailing decorators of newEthAnteHandler, in order
//	  gen_index_guards         for the signature helpers (eth_signer.go, tron signer.go): every constant index sig[c] with the
//	                           minimal length the function's `len(sig) < c'` guard guarantees (obligation: c < c')
//
// The finite obligations over these lists are in coq/proofs/P_ValidateGen.v. Fails loudly when a shape is gone.
package main

import (
	"bytes"
	"fmt"
	"go/ast"
	"go/parser"
	"go/printer"
	"go/token"
	"os"
	"path/filepath"
	"sort"
	"strconv"
	"strings"
)

func die(format string, a ...interface{}) {
	fmt.Fprintf(os.Stderr, "gen_c20: "+format+"\n", a...)
	os.Exit(1)
}

type field struct{ Name, Type, Nil string }
type typ struct {
	Pkg, Name string
	Fields    []field
	Validator string
	File      string
}
type site struct{ File, Func, What string }

var fset = token.NewFileSet()

func exprStr(e ast.Expr) string {
	var b bytes.Buffer
	_ = printer.Fprint(&b, fset, e)
	return strings.Join(strings.Fields(b.String()), " ")
}

// nil-ability of a Go field type as written in the source
func nilKind(t string) string {
	switch {
	case strings.HasSuffix(t, "math.Int") && !strings.HasPrefix(t, "[]") && !strings.HasPrefix(t, "*"):
		return "int"
	case strings.HasSuffix(t, "math.LegacyDec") && !strings.HasPrefix(t, "*"):
		return "dec"
	case t == "types.Coin" || strings.HasSuffix(t, "types.Coin") && !strings.HasPrefix(t, "[]") && !strings.HasPrefix(t, "*"):
		return "coin"
	case strings.HasSuffix(t, "types.Coins"):
		return "coins"
	case strings.HasSuffix(t, "types.Any") && strings.HasPrefix(t, "*"):
		return "any"
	case strings.HasPrefix(t, "*"):
		return "ptr"
	case strings.HasPrefix(t, "[]"):
		if strings.HasSuffix(t, "math.Int") {
			return "ints"
		}
		return "slice"
	case strings.HasPrefix(t, "map["):
		return "map"
	}
	return "no"
}

func recvName(fd *ast.FuncDecl) string {
	if fd.Recv == nil || len(fd.Recv.List) == 0 {
		return ""
	}
	t := fd.Recv.List[0].Type
	if s, ok := t.(*ast.StarExpr); ok {
		t = s.X
	}
	if id, ok := t.(*ast.Ident); ok {
		return id.Name
	}
	return ""
}

func accessorStyle(name string) bool {
	switch name {
	case "ValidateBasic", "Validate", "validateBasic", "GetSigners", "GetSignBytes":
		return true
	}
	for _, p := range []string{"Get", "Must", "Is", "Has"} {
		if strings.HasPrefix(name, p) {
			return true
		}
	}
	return strings.HasSuffix(name, "ToBytes") || strings.HasPrefix(name, "ExternalAddrTo") || strings.HasPrefix(name, "Parse") || strings.HasPrefix(name, "Validate")
}

func coqStr(s string) string { return "\"" + strings.ReplaceAll(s, "\"", "\"\"") + "\"" }

func main() {
	repo := os.Getenv("VERIF_REPO")
	if repo == "" {
		repo = "/repo"
	}
	out := os.Getenv("VERIF_OUT")
	if out == "" {
		out = "."
	}
	var dirs []string
	xs, err := filepath.Glob(filepath.Join(repo, "x", "*", "types"))
	if err != nil || len(xs) == 0 {
		die("no x/*/types directories under %s", repo)
	}
	dirs = append(dirs, xs...)
	if ys, _ := filepath.Glob(filepath.Join(repo, "x", "*", "*", "types")); len(ys) > 0 {
		dirs = append(dirs, ys...)
	}
	dirs = append(dirs, filepath.Join(repo, "types"), filepath.Join(repo, "types", "legacy"))
	sort.Strings(dirs)

	var types []typ
	var sites []site
	for _, dir := range dirs {
		pkgs, err := parser.ParseDir(fset, dir, func(fi os.FileInfo) bool { return !strings.HasSuffix(fi.Name(), "_test.go") }, 0)
		if err != nil {
			die("parse %s: %v", dir, err)
		}
		rel, _ := filepath.Rel(repo, dir)
		pkgLabel := filepath.Base(filepath.Dir(dir))
		if rel == "types" {
			pkgLabel = "fxtypes"
		}
		if rel == filepath.Join("types", "legacy") {
			pkgLabel = "legacy"
		}
		structs := map[string]*typ{}
		validators := map[string]string{}
		var names []string
		for _, p := range pkgs {
			if strings.HasSuffix(p.Name, "_test") {
				continue
			}
			var fnames []string
			for fn := range p.Files {
				fnames = append(fnames, fn)
			}
			sort.Strings(fnames)
			for _, fn := range fnames {
				f := p.Files[fn]
				relFile, _ := filepath.Rel(repo, fn)
				for _, d := range f.Decls {
					switch d := d.(type) {
					case *ast.GenDecl:
						for _, sp := range d.Specs {
							ts, ok := sp.(*ast.TypeSpec)
							if !ok {
								continue
							}
							st, ok := ts.Type.(*ast.StructType)
							if !ok {
								continue
							}
							t := &typ{Pkg: pkgLabel, Name: ts.Name.Name, File: relFile}
							for _, fl := range st.Fields.List {
								ty := exprStr(fl.Type)
								for _, n := range fl.Names {
									if strings.HasPrefix(n.Name, "XXX_") {
										continue
									}
									t.Fields = append(t.Fields, field{n.Name, ty, nilKind(ty)})
								}
							}
							structs[t.Name] = t
							names = append(names, t.Name)
						}
					case *ast.FuncDecl:
						if d.Body == nil {
							continue
						}
						rn := recvName(d)
						if rn != "" && (d.Name.Name == "ValidateBasic" || d.Name.Name == "Validate") && d.Type.Params.NumFields() == 0 {
							validators[rn] = d.Name.Name
						}
						if strings.HasSuffix(relFile, ".pb.go") || strings.HasSuffix(relFile, ".pb.gw.go") {
							continue
						}
						if !accessorStyle(d.Name.Name) {
							continue
						}
						fname := d.Name.Name
						if rn != "" {
							fname = rn + "." + fname
						}
						ast.Inspect(d.Body, func(n ast.Node) bool {
							call, ok := n.(*ast.CallExpr)
							if !ok {
								return true
							}
							switch fun := call.Fun.(type) {
							case *ast.Ident:
								if fun.Name == "panic" {
									sites = append(sites, site{relFile, pkgLabel + "." + fname, "panic"})
								} else if strings.HasPrefix(fun.Name, "Must") {
									sites = append(sites, site{relFile, pkgLabel + "." + fname, fun.Name})
								}
							case *ast.SelectorExpr:
								if strings.HasPrefix(fun.Sel.Name, "Must") {
									sites = append(sites, site{relFile, pkgLabel + "." + fname, exprStr(fun)})
								}
							}
							return true
						})
					}
				}
			}
		}
		sort.Strings(names)
		for _, n := range names {
			t := structs[n]
			t.Validator = validators[n]
			isMsg := strings.HasPrefix(n, "Msg") && !strings.HasSuffix(n, "Response")
			isArgs := strings.HasSuffix(n, "Args")
			if isMsg || isArgs || t.Validator != "" {
				types = append(types, *t)
			}
		}
	}
	if len(types) < 40 {
		die("only %d message/validated types found: the layout of x/*/types changed", len(types))
	}

	// precompile method bindings
	var methods [][2]string
	for _, c := range []string{"staking", "crosschain"} {
		dir := filepath.Join(repo, "x", c, "precompile")
		pkgs, err := parser.ParseDir(fset, dir, func(fi os.FileInfo) bool { return !strings.HasSuffix(fi.Name(), "_test.go") }, 0)
		if err != nil {
			die("parse %s: %v", dir, err)
		}
		found := 0
		for _, p := range pkgs {
			for _, f := range p.Files {
				ast.Inspect(f, func(n ast.Node) bool {
					ix, ok := n.(*ast.IndexExpr)
					if !ok {
						return true
					}
					sel, ok := ix.X.(*ast.SelectorExpr)
					if !ok || sel.Sel.Name != "Methods" {
						return true
					}
					if lit, ok := ix.Index.(*ast.BasicLit); ok {
						methods = append(methods, [2]string{c, strings.Trim(lit.Value, "\"")})
						found++
					}
					return true
				})
			}
		}
		if found == 0 {
			die("no GetABI().Methods[...] bindings found in %s", dir)
		}
	}
	sort.Slice(methods, func(i, j int) bool { return methods[i][0]+methods[i][1] < methods[j][0]+methods[j][1] })

	// ante chain
	var decorators, ethSteps []string
	{
		fn := filepath.Join(repo, "ante", "handler_options.go")
		f, err := parser.ParseFile(fset, fn, nil, 0)
		if err != nil {
			die("parse %s: %v", fn, err)
		}
		for _, d := range f.Decls {
			fd, ok := d.(*ast.FuncDecl)
			if !ok || fd.Name.Name != "newCosmosAnteHandler" {
				continue
			}
			ast.Inspect(fd.Body, func(n ast.Node) bool {
				call, ok := n.(*ast.CallExpr)
				if !ok {
					return true
				}
				if sel, ok := call.Fun.(*ast.SelectorExpr); ok && sel.Sel.Name == "ChainAnteDecorators" {
					for _, a := range call.Args {
						switch a := a.(type) {
						case *ast.CallExpr:
							decorators = append(decorators, exprStr(a.Fun))
						case *ast.CompositeLit:
							decorators = append(decorators, exprStr(a.Type))
						default:
							decorators = append(decorators, exprStr(a))
						}
					}
					return false
				}
				return true
			})
		}
		if len(decorators) == 0 {
			die("newCosmosAnteHandler / ChainAnteDecorators not found in ante/handler_options.go")
		}
		for _, d := range f.Decls {
			fd, ok := d.(*ast.FuncDecl)
			if !ok || fd.Name.Name != "newEthAnteHandler" {
				continue
			}
			var trailing []string
			ast.Inspect(fd.Body, func(n ast.Node) bool {
				switch x := n.(type) {
				case *ast.CompositeLit:
					if strings.Contains(exprStr(x.Type), "AnteDecorator") {
						for _, el := range x.Elts {
							if c, ok := el.(*ast.CallExpr); ok {
								trailing = append(trailing, exprStr(c.Fun))
							}
						}
						return false
					}
				case *ast.CallExpr:
					if sel, ok := x.Fun.(*ast.SelectorExpr); ok {
						if id, ok := sel.X.(*ast.Ident); ok && id.Name == "ethante" && sel.Sel.Name != "NewCachedAccountGetter" {
							ethSteps = append(ethSteps, "ethante."+sel.Sel.Name)
						}
					}
				}
				return true
			})
			ethSteps = append(ethSteps, trailing...)
		}
	}

	// index/guard facts of the signature helpers: for every `x[c]` with a constant c in a function that guards x by
	// `if len(x) < c' { return … }` (or <=, !=): (file, func, x, largest constant index read, minimal length the guard guarantees)
	type ig struct {
		File, Func, Var string
		MaxIdx, MinLen  int
	}
	var igs []ig
	knownConst := map[string]int{"crypto.RecoveryIDOffset": 64, "crypto.SignatureLength": 65, "crypto.DigestLength": 32}
	constOf := func(e ast.Expr) (int, bool) {
		switch v := e.(type) {
		case *ast.BasicLit:
			if v.Kind == token.INT {
				n, err := strconv.Atoi(v.Value)
				return n, err == nil
			}
		case *ast.SelectorExpr, *ast.Ident:
			n, ok := knownConst[exprStr(e)]
			return n, ok
		}
		return 0, false
	}
	for _, rel := range []string{"x/crosschain/types/eth_signer.go", "x/tron/types/signer.go"} {
		f, err := parser.ParseFile(fset, filepath.Join(repo, rel), nil, 0)
		if err != nil {
			die("parse %s: %v", rel, err)
		}
		for _, d := range f.Decls {
			fd, ok := d.(*ast.FuncDecl)
			if !ok || fd.Body == nil {
				continue
			}
			maxIdx := map[string]int{}
			minLen := map[string]int{}
			ast.Inspect(fd.Body, func(n ast.Node) bool {
				switch x := n.(type) {
				case *ast.IndexExpr:
					if id, ok := x.X.(*ast.Ident); ok {
						if c, ok := constOf(x.Index); ok {
							if cur, seen := maxIdx[id.Name]; !seen || c > cur {
								maxIdx[id.Name] = c
							}
						}
					}
				case *ast.IfStmt:
					be, ok := x.Cond.(*ast.BinaryExpr)
					if !ok || len(x.Body.List) == 0 {
						return true
					}
					if _, isRet := x.Body.List[len(x.Body.List)-1].(*ast.ReturnStmt); !isRet {
						return true
					}
					call, ok := be.X.(*ast.CallExpr)
					if !ok || exprStr(call.Fun) != "len" || len(call.Args) != 1 {
						return true
					}
					id, ok := call.Args[0].(*ast.Ident)
					if !ok {
						return true
					}
					c, ok := constOf(be.Y)
					if !ok {
						return true
					}
					g := 0
					switch be.Op {
					case token.LSS, token.NEQ:
						g = c
					case token.LEQ:
						g = c + 1
					}
					if g > minLen[id.Name] {
						minLen[id.Name] = g
					}
				}
				return true
			})
			for v, mi := range maxIdx {
				igs = append(igs, ig{rel, fd.Name.Name, v, mi, minLen[v]})
			}
		}
	}
	sort.Slice(igs, func(i, j int) bool { return igs[i].File+igs[i].Func+igs[i].Var < igs[j].File+igs[j].Func+igs[j].Var })
	if len(igs) == 0 {
		die("no constant index into the signature found in the signature helpers (x/crosschain/types/eth_signer.go, x/tron/types/signer.go): their shape changed")
	}

	// handler code: arithmetic / conversion sinks on message-derived values, and attacker-indexed paired lists.
	// Taint: parameters whose type names a message, argument struct, claim, coin, Int, big.Int or vm.Contract; propagated through
	// local assignments and range variables. Sinks: Int/Coin/Dec .Add/.Mul/.MulRaw/.Quo (panic on overflow / zero divisor),
	// NewIntFromBigInt (panics above 256 bits), .Int64()/.Uint64() (panic out of range on sdkmath.Int), integer casts.
	type asite struct{ File, Func, Kind, Expr string }
	var asites []asite
	var pairs [][3]string // (function, ranged list, indexed list) for `for i := range X.A { … X.B[i] … }`
	{
		taintedType := func(t string) bool {
			for _, k := range []string{"types.Msg", "Args", "sdk.Coin", "sdkmath.Int", "big.Int", "vm.Contract", "ExternalClaim", "Claim", "types.ERC20Token"} {
				if strings.Contains(t, k) {
					return true
				}
			}
			return false
		}
		mentions := func(e ast.Node, names map[string]bool) bool {
			found := false
			ast.Inspect(e, func(n ast.Node) bool {
				if id, ok := n.(*ast.Ident); ok && names[id.Name] {
					found = true
				}
				return !found
			})
			return found
		}
		var hfiles []string
		for _, g := range []string{"x/crosschain/keeper/*.go", "x/crosschain/precompile/*.go", "x/staking/precompile/*.go", "x/erc20/keeper/*.go", "x/gov/keeper/msg_server.go", "x/migrate/keeper/*.go", "x/ibc/middleware/keeper/*.go"} {
			m, _ := filepath.Glob(filepath.Join(repo, g))
			hfiles = append(hfiles, m...)
		}
		sort.Strings(hfiles)
		if len(hfiles) < 40 {
			die("handler files not found (x/crosschain/keeper etc.)")
		}
		for _, fn := range hfiles {
			base := filepath.Base(fn)
			if strings.HasSuffix(base, "_test.go") || strings.Contains(base, "grpc_query") || strings.Contains(base, "genesis") {
				continue
			}
			f, err := parser.ParseFile(fset, fn, nil, 0)
			if err != nil {
				die("parse %s: %v", fn, err)
			}
			rel, _ := filepath.Rel(repo, fn)
			for _, d := range f.Decls {
				fd, ok := d.(*ast.FuncDecl)
				if !ok || fd.Body == nil {
					continue
				}
				taint := map[string]bool{}
				for _, p := range fd.Type.Params.List {
					if taintedType(exprStr(p.Type)) {
						for _, n := range p.Names {
							taint[n.Name] = true
						}
					}
				}
				if len(taint) == 0 {
					continue
				}
				for changed := true; changed; {
					changed = false
					ast.Inspect(fd.Body, func(n ast.Node) bool {
						switch a := n.(type) {
						case *ast.AssignStmt:
							for i, l := range a.Lhs {
								id, ok := l.(*ast.Ident)
								if !ok || taint[id.Name] || id.Name == "_" || id.Name == "err" {
									continue
								}
								r := a.Rhs[0]
								if len(a.Rhs) == len(a.Lhs) {
									r = a.Rhs[i]
								}
								if mentions(r, taint) {
									taint[id.Name] = true
									changed = true
								}
							}
						case *ast.RangeStmt:
							if mentions(a.X, taint) {
								for _, v := range []ast.Expr{a.Key, a.Value} {
									if id, ok := v.(*ast.Ident); ok && id.Name != "_" && !taint[id.Name] {
										taint[id.Name] = true
										changed = true
									}
								}
							}
						}
						return true
					})
				}
				name := fd.Name.Name
				if fd.Recv != nil && len(fd.Recv.List) > 0 {
					name = strings.TrimPrefix(exprStr(fd.Recv.List[0].Type), "*") + "." + name
				}
				ast.Inspect(fd.Body, func(n ast.Node) bool {
					switch x := n.(type) {
					case *ast.CallExpr:
						switch fun := x.Fun.(type) {
						case *ast.SelectorExpr:
							switch k := fun.Sel.Name; k {
							case "Add", "Mul", "MulRaw", "Quo", "Int64", "Uint64", "NewIntFromBigInt":
								if mentions(x, taint) && !strings.HasPrefix(exprStr(fun.X), "binary.") {
									asites = append(asites, asite{rel, name, k, exprStr(x)})
								}
							}
						case *ast.Ident:
							if (fun.Name == "int64" || fun.Name == "uint64" || fun.Name == "int" || fun.Name == "uint32" || fun.Name == "uint8" || fun.Name == "byte") && len(x.Args) == 1 && mentions(x.Args[0], taint) {
								asites = append(asites, asite{rel, name, "cast:" + fun.Name, exprStr(x)})
							}
						}
					case *ast.RangeStmt:
						// for i := range X.A { … X.B[i] … }
						key, ok := x.Key.(*ast.Ident)
						if !ok || !mentions(x.X, taint) {
							return true
						}
						ranged := exprStr(x.X)
						ast.Inspect(x.Body, func(m ast.Node) bool {
							ix, ok := m.(*ast.IndexExpr)
							if !ok {
								return true
							}
							if id, ok := ix.Index.(*ast.Ident); ok && id.Name == key.Name && mentions(ix.X, taint) && exprStr(ix.X) != ranged {
								pairs = append(pairs, [3]string{name, ranged, exprStr(ix.X)})
							}
							return true
						})
					}
					return true
				})
			}
		}
		sort.Slice(asites, func(i, j int) bool {
			a, b := asites[i], asites[j]
			return a.File+a.Func+a.Kind+a.Expr < b.File+b.Func+b.Kind+b.Expr
		})
		var ua []asite
		for i, a := range asites {
			if i == 0 || a != asites[i-1] {
				ua = append(ua, a)
			}
		}
		asites = ua
		sort.Slice(pairs, func(i, j int) bool { return pairs[i][0]+pairs[i][1]+pairs[i][2] < pairs[j][0]+pairs[j][1]+pairs[j][2] })
	}

	sort.Slice(sites, func(i, j int) bool {
		a, b := sites[i], sites[j]
		return a.File+a.Func+a.What < b.File+b.Func+b.What
	})
	// de-duplicate identical (file, func, what) triples
	var us []site
	for i, s := range sites {
		if i == 0 || s != sites[i-1] {
			us = append(us, s)
		}
	}

	var sb strings.Builder
	sb.WriteString("(* generated by harness/gen_c20 from the current fx-core tree: do not edit *)\n")
	sb.WriteString("From Coq Require Import List String.\nImport ListNotations.\nOpen Scope string_scope.\n\n")
	sb.WriteString("Record gen_field := { gf_name : string; gf_type : string; gf_nil : string }.\n")
	sb.WriteString("Record gen_type := { gt_name : string; gt_validator : string; gt_fields : list gen_field }.\n\n")
	sb.WriteString("Definition gen_types : list gen_type :=\n [")
	for i, t := range types {
		if i > 0 {
			sb.WriteString(";\n  ")
		}
		var fs []string
		for _, f := range t.Fields {
			fs = append(fs, fmt.Sprintf("{| gf_name := %s; gf_type := %s; gf_nil := %s |}", coqStr(f.Name), coqStr(f.Type), coqStr(f.Nil)))
		}
		sb.WriteString(fmt.Sprintf("{| gt_name := %s; gt_validator := %s; gt_fields := [%s] |}", coqStr(t.Pkg+"."+t.Name), coqStr(t.Validator), strings.Join(fs, "; ")))
	}
	sb.WriteString("].\n\n")
	sb.WriteString("Definition gen_panic_sites : list (string * string * string) :=\n [")
	for i, s := range us {
		if i > 0 {
			sb.WriteString(";\n  ")
		}
		sb.WriteString(fmt.Sprintf("(%s, %s, %s)", coqStr(s.File), coqStr(s.Func), coqStr(s.What)))
	}
	sb.WriteString("].\n\n")
	sb.WriteString("Definition gen_precompile_methods : list (string * string) :=\n [")
	for i, m := range methods {
		if i > 0 {
			sb.WriteString("; ")
		}
		sb.WriteString(fmt.Sprintf("(%s, %s)", coqStr(m[0]), coqStr(m[1])))
	}
	sb.WriteString("].\n\n")
	sb.WriteString("Definition gen_ante_decorators : list string :=\n [")
	for i, d := range decorators {
		if i > 0 {
			sb.WriteString("; ")
		}
		sb.WriteString(coqStr(d))
	}
	sb.WriteString("].\n\n")
	sb.WriteString("Definition gen_eth_ante_steps : list string :=\n [")
	for i, d := range ethSteps {
		if i > 0 {
			sb.WriteString("; ")
		}
		sb.WriteString(coqStr(d))
	}
	sb.WriteString("].\n")
	sb.WriteString("\n(* signature helpers: (file, function, indexed variable, largest constant index read, minimal length its guard guarantees) *)\n")
	sb.WriteString("Definition gen_index_guards : list (string * string * string * nat * nat) :=\n [")
	for i, g := range igs {
		if i > 0 {
			sb.WriteString(";\n  ")
		}
		sb.WriteString(fmt.Sprintf("(%s, %s, %s, %d, %d)", coqStr(g.File), coqStr(g.Func), coqStr(g.Var), g.MaxIdx, g.MinLen))
	}
	sb.WriteString("].\n")
	sb.WriteString("\n(* handler code: arithmetic / conversion sinks applied to message-derived values (file, function, kind, expression) *)\n")
	sb.WriteString("Definition gen_arith_sites : list (string * string * string * string) :=\n [")
	for i, a := range asites {
		if i > 0 {
			sb.WriteString(";\n  ")
		}
		sb.WriteString(fmt.Sprintf("(%s, %s, %s, %s)", coqStr(a.File), coqStr(a.Func), coqStr(a.Kind), coqStr(a.Expr)))
	}
	sb.WriteString("].\n")
	sb.WriteString("\n(* handler code: `for i := range A { … B[i] … }` over two message-derived lists (function, ranged, indexed) *)\n")
	sb.WriteString("Definition gen_paired_indexes : list (string * string * string) :=\n [")
	for i, p := range pairs {
		if i > 0 {
			sb.WriteString(";\n  ")
		}
		sb.WriteString(fmt.Sprintf("(%s, %s, %s)", coqStr(p[0]), coqStr(p[1]), coqStr(p[2])))
	}
	sb.WriteString("].\n")
	if err := os.WriteFile(filepath.Join(out, "Gen_MsgFields.v"), []byte(sb.String()), 0o644); err != nil {
		die("write: %v", err)
	}
	fmt.Printf("gen_c20: %d types, %d panic sites, %d precompile methods, %d ante decorators\n", len(types), len(us), len(methods), len(decorators))
}
