package lib

// blockresp.go: like NextBlockAfter, but returns the real FinalizeBlock response (begin/end block
// events, tx results, app hash) — used where the observable is the block result itself (C17).

import (
	"fmt"
	"time"

	abci "github.com/cometbft/cometbft/abci/types"
)

// NextBlockResp finalizes and commits the block being built (ops applied on c.Ctx are part of it),
// optionally with raw transactions, and opens the next one.
func (c *Chain) NextBlockResp(dt time.Duration, txs [][]byte) (resp *abci.ResponseFinalizeBlock, err error) {
	defer func() {
		if r := recover(); r != nil {
			err = fmt.Errorf("PANIC in block processing: %v", r)
		}
	}()
	h := c.Height + 1
	if c.Height == 0 {
		h = 1
	}
	c.Time = c.Time.Add(dt)
	resp, e := c.App.FinalizeBlock(&abci.RequestFinalizeBlock{
		Height:            h,
		Time:              c.Time,
		ProposerAddress:   c.proposer,
		DecidedLastCommit: c.commit,
		Txs:               txs,
	})
	if e != nil {
		return nil, fmt.Errorf("FinalizeBlock: %w", e)
	}
	if _, e := c.App.Commit(); e != nil {
		return resp, fmt.Errorf("Commit: %w", e)
	}
	c.Height = h
	if _, e := c.App.ProcessProposal(&abci.RequestProcessProposal{
		Height:             h + 1,
		Time:               c.Time.Add(BlockStep),
		ProposerAddress:    c.proposer,
		ProposedLastCommit: c.commit,
	}); e != nil {
		return resp, fmt.Errorf("ProcessProposal: %w", e)
	}
	c.Ctx = c.App.GetContextForFinalizeBlock(nil).WithProposer(c.proposer)
	return resp, nil
}
