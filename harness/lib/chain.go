// Package lib: shared machinery for the correspondence harnesses.
// chain.go builds the real fx-core application deterministically (keys, genesis
// time and block times derive from a seed), so a history replays exactly.
package lib

import (
	"crypto/sha256"
	"encoding/binary"
	"encoding/json"
	"fmt"
	"time"

	"cosmossdk.io/log"
	sdkmath "cosmossdk.io/math"
	abci "github.com/cometbft/cometbft/abci/types"
	tmed25519 "github.com/cometbft/cometbft/crypto/ed25519"
	tenderminttypes "github.com/cometbft/cometbft/proto/tendermint/types"
	tmtypes "github.com/cometbft/cometbft/types"
	dbm "github.com/cosmos/cosmos-db"
	codectypes "github.com/cosmos/cosmos-sdk/codec/types"
	cryptocodec "github.com/cosmos/cosmos-sdk/crypto/codec"
	"github.com/cosmos/cosmos-sdk/crypto/keys/secp256k1"
	cryptotypes "github.com/cosmos/cosmos-sdk/crypto/types"
	sdk "github.com/cosmos/cosmos-sdk/types"
	authtypes "github.com/cosmos/cosmos-sdk/x/auth/types"
	banktypes "github.com/cosmos/cosmos-sdk/x/bank/types"
	minttypes "github.com/cosmos/cosmos-sdk/x/mint/types"
	slashingtypes "github.com/cosmos/cosmos-sdk/x/slashing/types"
	stakingtypes "github.com/cosmos/cosmos-sdk/x/staking/types"
	"github.com/ethereum/go-ethereum/common"
	"github.com/evmos/ethermint/crypto/ethsecp256k1"
	"github.com/spf13/viper"

	"github.com/functionx/fx-core/v8/app"
	fxtypes "github.com/functionx/fx-core/v8/types"
)

var GenesisTime = time.Date(2024, 1, 1, 0, 0, 0, 0, time.UTC)

const BlockStep = 5 * time.Second

type Key struct {
	Priv cryptotypes.PrivKey
}

func (k Key) Acc() sdk.AccAddress    { return k.Priv.PubKey().Address().Bytes() }
func (k Key) Hex() common.Address    { return common.BytesToAddress(k.Priv.PubKey().Address()) }
func (k Key) Val() sdk.ValAddress    { return k.Priv.PubKey().Address().Bytes() }
func (k Key) ECDSAKeyBytes() []byte  { return k.Priv.Bytes() }

func seedBytes(seed int64, domain string, i int) []byte {
	h := sha256.New()
	var b [16]byte
	binary.BigEndian.PutUint64(b[:8], uint64(seed))
	binary.BigEndian.PutUint64(b[8:], uint64(i))
	h.Write([]byte(domain))
	h.Write(b[:])
	return h.Sum(nil)
}

// EthKey derives an eth_secp256k1 key (fx-core's account key type) from (seed, domain, i).
func EthKey(seed int64, domain string, i int) Key {
	return Key{Priv: &ethsecp256k1.PrivKey{Key: seedBytes(seed, "eth/"+domain, i)}}
}

// CosmosKey derives a cosmos secp256k1 key.
func CosmosKey(seed int64, domain string, i int) Key {
	return Key{Priv: &secp256k1.PrivKey{Key: seedBytes(seed, "cosmos/"+domain, i)}}
}

type Chain struct {
	App      *app.App
	Ctx      sdk.Context
	ValSet   *tmtypes.ValidatorSet
	ValKeys  []Key // operator keys
	Seed     int64
	Height   int64
	Time     time.Time
	commit   abci.CommitInfo
	proposer []byte
	Opts     map[string]interface{}
}

// NewChain builds the full application on a MemDB with nVals bonded validators.
func NewChain(seed int64, nVals int, appOpts map[string]interface{}) *Chain {
	c := &Chain{Seed: seed, Opts: appOpts}
	v := viper.New()
	for k, val := range appOpts {
		v.Set(k, val)
	}
	c.App = app.New(log.NewNopLogger(), dbm.NewMemDB(), nil, true, map[int64]bool{}, fxtypes.GetDefaultNodeHome(), v)

	cdc := c.App.AppCodec()
	genesis := app.NewDefAppGenesisByDenom(cdc, c.App.ModuleBasics)

	validators := make([]*tmtypes.Validator, nVals)
	genAccs := make(authtypes.GenesisAccounts, nVals)
	balances := make([]banktypes.Balance, nVals)
	initCoins := sdk.NewCoins(sdk.NewCoin(fxtypes.DefaultDenom, sdkmath.NewInt(10_000).MulRaw(1e18)))
	for i := 0; i < nVals; i++ {
		cons := tmed25519.GenPrivKeyFromSecret(seedBytes(seed, "cons", i))
		validators[i] = tmtypes.NewValidator(cons.PubKey(), 1)
		k := CosmosKey(seed, "valop", i)
		c.ValKeys = append(c.ValKeys, k)
		genAccs[i] = authtypes.NewBaseAccount(k.Acc(), k.Priv.PubKey(), 0, 0)
		balances[i] = banktypes.Balance{Address: k.Acc().String(), Coins: initCoins}
	}
	c.ValSet = tmtypes.NewValidatorSet(validators)

	var authGenesis authtypes.GenesisState
	cdc.MustUnmarshalJSON(genesis[authtypes.ModuleName], &authGenesis)
	packAccounts, err := authtypes.PackAccounts(genAccs)
	must(err)
	authGenesis.Accounts = packAccounts
	genesis[authtypes.ModuleName] = cdc.MustMarshalJSON(&authGenesis)

	bondAmt := sdk.DefaultPowerReduction
	var vals []stakingtypes.Validator
	var dels []stakingtypes.Delegation
	for i, val := range c.ValSet.Validators {
		pk, err := cryptocodec.FromCmtPubKeyInterface(val.PubKey)
		must(err)
		pkAny, err := codectypes.NewAnyWithValue(pk)
		must(err)
		// the validator set is sorted by address; find the matching operator index
		_ = i
		op := sdk.ValAddress(genAccs[i].GetAddress())
		validator := stakingtypes.Validator{
			OperatorAddress:   op.String(),
			ConsensusPubkey:   pkAny,
			Status:            stakingtypes.Bonded,
			Tokens:            bondAmt,
			DelegatorShares:   sdkmath.LegacyNewDecFromInt(bondAmt),
			UnbondingTime:     time.Unix(0, 0).UTC(),
			Commission:        stakingtypes.NewCommission(sdkmath.LegacyZeroDec(), sdkmath.LegacyZeroDec(), sdkmath.LegacyZeroDec()),
			MinSelfDelegation: sdkmath.NewInt(10),
		}
		vals = append(vals, validator)
		dels = append(dels, stakingtypes.NewDelegation(genAccs[i].GetAddress().String(), op.String(), sdkmath.LegacyNewDecFromInt(bondAmt)))
	}
	var stakingGenesis stakingtypes.GenesisState
	cdc.MustUnmarshalJSON(genesis[stakingtypes.ModuleName], &stakingGenesis)
	stakingGenesis.Params.MaxValidators = uint32(len(vals))
	stakingGenesis.Validators = vals
	stakingGenesis.Delegations = dels
	genesis[stakingtypes.ModuleName] = cdc.MustMarshalJSON(&stakingGenesis)

	var bankGenesis banktypes.GenesisState
	cdc.MustUnmarshalJSON(genesis[banktypes.ModuleName], &bankGenesis)
	for _, b := range balances {
		bankGenesis.Supply = bankGenesis.Supply.Add(b.Coins...)
	}
	for range vals {
		bankGenesis.Supply = bankGenesis.Supply.Add(sdk.NewCoin(stakingGenesis.Params.BondDenom, bondAmt))
	}
	bankGenesis.Balances = append(bankGenesis.Balances, balances...)
	// the default genesis supply carries 4000 FX that no default balance holds (same as testutil/helpers)
	bankGenesis.Balances = append(bankGenesis.Balances, banktypes.Balance{
		Address: CosmosKey(seed, "genesis-extra", 0).Acc().String(),
		Coins:   sdk.NewCoins(sdk.NewCoin(fxtypes.DefaultDenom, sdkmath.NewInt(4_000).MulRaw(1e18))),
	})
	bankGenesis.Balances = append(bankGenesis.Balances, banktypes.Balance{
		Address: authtypes.NewModuleAddress(stakingtypes.BondedPoolName).String(),
		Coins:   sdk.Coins{sdk.NewCoin(stakingGenesis.Params.BondDenom, bondAmt.MulRaw(int64(len(vals))))},
	})
	genesis[banktypes.ModuleName] = cdc.MustMarshalJSON(&bankGenesis)

	stateBytes, err := json.Marshal(genesis)
	must(err)
	cp := app.CustomGenesisConsensusParams().ToProto()
	_, err = c.App.InitChain(&abci.RequestInitChain{
		Time:            GenesisTime,
		ConsensusParams: &cp,
		AppStateBytes:   stateBytes,
		InitialHeight:   1,
	})
	must(err)

	c.commit = abci.CommitInfo{Round: 1}
	for _, val := range c.ValSet.Validators {
		pk, err := cryptocodec.FromCmtPubKeyInterface(val.PubKey)
		must(err)
		c.commit.Votes = append(c.commit.Votes, abci.VoteInfo{
			Validator:   abci.Validator{Address: pk.Address(), Power: val.VotingPower},
			BlockIdFlag: tenderminttypes.BlockIDFlagCommit,
		})
	}
	c.proposer = c.ValSet.Proposer.Address.Bytes()
	c.Height = 0
	c.Time = GenesisTime
	c.Ctx = c.App.GetContextForFinalizeBlock(nil).WithProposer(c.proposer).WithBlockTime(c.Time)
	for _, v := range c.commit.Votes {
		info := slashingtypes.NewValidatorSigningInfo(sdk.ConsAddress(v.Validator.Address), 0, 0, time.Unix(0, 0), false, 0)
		must(c.App.SlashingKeeper.SetValidatorSigningInfo(c.Ctx, sdk.ConsAddress(v.Validator.Address), info))
	}
	return c
}

// NextBlock finalizes and commits the block being built (ops applied on c.Ctx are in
// the finalize-block state, so they are part of it), running the REAL begin/end blockers,
// and opens the next one. A panic or error in block processing is returned, not raised.
func (c *Chain) NextBlock() (err error) {
	return c.NextBlockAfter(BlockStep)
}

func (c *Chain) NextBlockAfter(dt time.Duration) (err error) {
	defer func() {
		if r := recover(); r != nil {
			err = fmt.Errorf("PANIC in block processing: %v", r)
		}
	}()
	h := c.Height
	if h == 0 {
		h = 1
	} else {
		h = c.Height + 1
	}
	c.Time = c.Time.Add(dt)
	if _, e := c.App.FinalizeBlock(&abci.RequestFinalizeBlock{
		Height:            h,
		Time:              c.Time,
		ProposerAddress:   c.proposer,
		DecidedLastCommit: c.commit,
	}); e != nil {
		return fmt.Errorf("FinalizeBlock: %w", e)
	}
	if _, e := c.App.Commit(); e != nil {
		return fmt.Errorf("Commit: %w", e)
	}
	c.Height = h
	if _, e := c.App.ProcessProposal(&abci.RequestProcessProposal{
		Height:             h + 1,
		Time:               c.Time.Add(BlockStep),
		ProposerAddress:    c.proposer,
		ProposedLastCommit: c.commit,
	}); e != nil {
		return fmt.Errorf("ProcessProposal: %w", e)
	}
	c.Ctx = c.App.GetContextForFinalizeBlock(nil).WithProposer(c.proposer)
	return nil
}

// Mint gives coins to an address on the current block context.
func (c *Chain) Mint(addr sdk.AccAddress, coins ...sdk.Coin) {
	must(c.App.BankKeeper.MintCoins(c.Ctx, minttypes.ModuleName, sdk.NewCoins(coins...)))
	must(c.App.BankKeeper.SendCoinsFromModuleToAccount(c.Ctx, minttypes.ModuleName, addr, sdk.NewCoins(coins...)))
}

func FX(n int64) sdk.Coin {
	return sdk.NewCoin(fxtypes.DefaultDenom, sdkmath.NewInt(n).MulRaw(1e18))
}

func must(err error) {
	if err != nil {
		panic(err)
	}
}

func Must(err error) { must(err) }

// Try runs f on a cache branch of the chain context: writes are committed to the block
// state only if f returns nil; a panic is converted to an error (and discarded).
func (c *Chain) Try(f func(ctx sdk.Context) error) (err error) {
	cctx, write := c.Ctx.CacheContext()
	defer func() {
		if r := recover(); r != nil {
			err = fmt.Errorf("PANIC: %v", r)
		}
	}()
	if e := f(cctx); e != nil {
		return e
	}
	write()
	return nil
}
