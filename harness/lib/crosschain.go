package lib

// crosschain.go: scenario helpers for the eight bridge modules on the REAL app:
// bonded oracles with bridger and external keys, claims through the real MsgServer,
// raw store dumps of a chain module.

import (
	"crypto/ecdsa"
	"fmt"
	"sort"

	sdkmath "cosmossdk.io/math"
	storetypes "cosmossdk.io/store/types"
	codectypes "github.com/cosmos/cosmos-sdk/codec/types"
	sdk "github.com/cosmos/cosmos-sdk/types"
	authtypes "github.com/cosmos/cosmos-sdk/x/auth/types"
	govtypes "github.com/cosmos/cosmos-sdk/x/gov/types"
	"github.com/ethereum/go-ethereum/crypto"

	fxtypes "github.com/functionx/fx-core/v8/types"
	crosschainkeeper "github.com/functionx/fx-core/v8/x/crosschain/keeper"
	crosschaintypes "github.com/functionx/fx-core/v8/x/crosschain/types"
)

var ChainModules = []string{"eth", "bsc", "polygon", "avalanche", "arbitrum", "optimism", "layer2", "tron"}

type Oracle struct {
	Idx      int
	Oracle   Key
	Bridger  Key
	External *ecdsa.PrivateKey
	ExtAddr  string // external address in the chain's format
}

type XChain struct {
	C       *Chain
	Module  string
	Keeper  crosschainkeeper.Keeper
	Oracles []*Oracle
}

func (c *Chain) XKeeper(module string) crosschainkeeper.Keeper {
	switch module {
	case "eth":
		return c.App.EthKeeper
	case "bsc":
		return c.App.BscKeeper
	case "polygon":
		return c.App.PolygonKeeper
	case "avalanche":
		return c.App.AvalancheKeeper
	case "arbitrum":
		return c.App.ArbitrumKeeper
	case "optimism":
		return c.App.OptimismKeeper
	case "layer2":
		return c.App.Layer2Keeper
	case "tron":
		return c.App.TronKeeper
	}
	panic("unknown chain module " + module)
}

func (c *Chain) X(module string) *XChain {
	return &XChain{C: c, Module: module, Keeper: c.XKeeper(module)}
}

// Msg returns the module's real MsgServer bound to the current keeper.
func (x *XChain) Msg() crosschaintypes.MsgServer { return crosschainkeeper.NewMsgServerImpl(x.Keeper) }

func GovAuthority() string { return authtypes.NewModuleAddress(govtypes.ModuleName).String() }

// NewOracle derives the i-th oracle identity of this chain (not yet registered anywhere).
func (x *XChain) NewOracle(i int) *Oracle {
	ext, err := crypto.ToECDSA(seedBytes(x.C.Seed, "ext/"+x.Module, i))
	must(err)
	addr := crypto.PubkeyToAddress(ext.PublicKey)
	return &Oracle{
		Idx:      i,
		Oracle:   EthKey(x.C.Seed, "oracle/"+x.Module, i),
		Bridger:  EthKey(x.C.Seed, "bridger/"+x.Module, i),
		External: ext,
		ExtAddr:  crosschaintypes.ExternalAddrToStr(x.Module, addr.Bytes()),
	}
}

// ProposeOracles sets the governance-approved oracle list through the real authority-guarded handler.
func (x *XChain) ProposeOracles(os []*Oracle) error {
	var addrs []string
	for _, o := range os {
		addrs = append(addrs, o.Oracle.Acc().String())
	}
	_, err := x.Msg().UpdateChainOracles(x.C.Ctx, &crosschaintypes.MsgUpdateChainOracles{
		ChainName: x.Module, Authority: GovAuthority(), Oracles: addrs,
	})
	return err
}

// Bond registers oracle o with the given stake (in whole FX) delegated to validator valIdx.
func (x *XChain) Bond(o *Oracle, stakeFX int64, valIdx int) error {
	_, err := x.Msg().BondedOracle(x.C.Ctx, &crosschaintypes.MsgBondedOracle{
		OracleAddress:    o.Oracle.Acc().String(),
		BridgerAddress:   o.Bridger.Acc().String(),
		ExternalAddress:  o.ExtAddr,
		ValidatorAddress: x.C.ValKeys[valIdx%len(x.C.ValKeys)].Val().String(),
		DelegateAmount:   sdk.NewCoin(fxtypes.DefaultDenom, sdkmath.NewInt(stakeFX).MulRaw(1e18)),
		ChainName:        x.Module,
	})
	return err
}

// SetupOracles creates, funds, approves and bonds len(stakesFX) oracles.
func (x *XChain) SetupOracles(stakesFX []int64) {
	var os []*Oracle
	for i := range stakesFX {
		o := x.NewOracle(i)
		os = append(os, o)
		x.C.Mint(o.Oracle.Acc(), FX(stakesFX[i]*20+1000))
		x.C.Mint(o.Bridger.Acc(), FX(1000))
	}
	must(x.ProposeOracles(os))
	for i, o := range os {
		must(x.Bond(o, stakesFX[i], i))
	}
	x.Oracles = os
}

// Claim submits claim through the real MsgServer.Claim as a vote of oracle o.
// The claim's BridgerAddress and ChainName are set here.
func (x *XChain) Claim(o *Oracle, claim crosschaintypes.ExternalClaim) error {
	setBridger(claim, o.Bridger.Acc().String(), x.Module)
	anyClaim, err := codectypes.NewAnyWithValue(claim)
	if err != nil {
		return err
	}
	return x.C.Try(func(ctx sdk.Context) error {
		_, err := x.Msg().Claim(ctx, &crosschaintypes.MsgClaim{ChainName: x.Module, BridgerAddress: o.Bridger.Acc().String(), Claim: anyClaim})
		return err
	})
}

func setBridger(claim crosschaintypes.ExternalClaim, bridger, chain string) {
	switch c := claim.(type) {
	case *crosschaintypes.MsgSendToFxClaim:
		c.BridgerAddress, c.ChainName = bridger, chain
	case *crosschaintypes.MsgSendToExternalClaim:
		c.BridgerAddress, c.ChainName = bridger, chain
	case *crosschaintypes.MsgBridgeTokenClaim:
		c.BridgerAddress, c.ChainName = bridger, chain
	case *crosschaintypes.MsgOracleSetUpdatedClaim:
		c.BridgerAddress, c.ChainName = bridger, chain
	case *crosschaintypes.MsgBridgeCallClaim:
		c.BridgerAddress, c.ChainName = bridger, chain
	case *crosschaintypes.MsgBridgeCallResultClaim:
		c.BridgerAddress, c.ChainName = bridger, chain
	default:
		panic(fmt.Sprintf("unknown claim type %T", claim))
	}
}

// ObserveAll makes every bonded, online oracle vote for (a fresh copy of) the claim produced by mk.
// Returns the per-oracle errors.
func (x *XChain) ObserveAll(mk func() crosschaintypes.ExternalClaim) []error {
	var errs []error
	for _, o := range x.Oracles {
		errs = append(errs, x.Claim(o, mk()))
	}
	return errs
}

// ---------- raw store access ----------

type KV struct {
	K []byte
	V []byte
}

// DumpPrefix returns all (key,value) pairs of a module store under prefix, in iteration order.
func (c *Chain) DumpPrefix(ctx sdk.Context, storeName string, prefix []byte) []KV {
	key := c.App.GetKey(storeName)
	store := ctx.KVStore(key)
	it := storetypes.KVStorePrefixIterator(store, prefix)
	defer it.Close()
	var out []KV
	for ; it.Valid(); it.Next() {
		k := append([]byte{}, it.Key()...)
		v := append([]byte{}, it.Value()...)
		out = append(out, KV{k, v})
	}
	return out
}

// DumpAll returns storeName -> sorted "hexkey=hexvalue" lines for every KV store of the app
// (used by byte-for-byte "nothing changed" comparisons).
func (c *Chain) DumpAll(ctx sdk.Context) map[string][]string {
	res := map[string][]string{}
	keys := c.App.GetKVStoreKey()
	names := make([]string, 0, len(keys))
	for n := range keys {
		names = append(names, n)
	}
	sort.Strings(names)
	for _, n := range names {
		for _, kv := range c.DumpPrefix(ctx, n, nil) {
			res[n] = append(res[n], fmt.Sprintf("%x=%x", kv.K, kv.V))
		}
	}
	return res
}

// DiffDumps lists the stores/keys that differ between two dumps (bounded output).
func DiffDumps(a, b map[string][]string) []string {
	var out []string
	names := map[string]bool{}
	for n := range a {
		names[n] = true
	}
	for n := range b {
		names[n] = true
	}
	var ns []string
	for n := range names {
		ns = append(ns, n)
	}
	sort.Strings(ns)
	for _, n := range ns {
		am, bm := map[string]bool{}, map[string]bool{}
		for _, l := range a[n] {
			am[l] = true
		}
		for _, l := range b[n] {
			bm[l] = true
		}
		for _, l := range a[n] {
			if !bm[l] && len(out) < 40 {
				out = append(out, n+": -"+trunc(l))
			}
		}
		for _, l := range b[n] {
			if !am[l] && len(out) < 40 {
				out = append(out, n+": +"+trunc(l))
			}
		}
	}
	return out
}

func trunc(s string) string {
	if len(s) > 160 {
		return s[:160] + "…"
	}
	return s
}
