package lib

// evm.go: driving the REAL EVM (ethermint keeper + geth fork interpreter + fx precompiles)
// with full control over caller, gas limit and call data, and a tiny bytecode assembler
// (there is no solc in the sandbox) for building call trees around precompile calls.

import (
	"fmt"
	"math/big"

	sdk "github.com/cosmos/cosmos-sdk/types"
	"github.com/ethereum/go-ethereum/common"
	"github.com/ethereum/go-ethereum/core"
	ethtypes "github.com/ethereum/go-ethereum/core/types"
	"github.com/ethereum/go-ethereum/core/vm"
	evmtypes "github.com/evmos/ethermint/x/evm/types"
)

var (
	StakingPrecompile    = common.HexToAddress("0x0000000000000000000000000000000000001003")
	CrosschainPrecompile = common.HexToAddress("0x0000000000000000000000000000000000001004")
)

// EnsureAccount creates the auth account if missing (the EVM needs a sequence for `from`).
func (c *Chain) EnsureAccount(ctx sdk.Context, addr sdk.AccAddress) {
	if c.App.AccountKeeper.GetAccount(ctx, addr) == nil {
		c.App.AccountKeeper.SetAccount(ctx, c.App.AccountKeeper.NewAccountWithAddress(ctx, addr))
	}
}

type EvmResult struct {
	Failed  bool   // EVM-level failure (revert, out of gas, invalid opcode …): state of the tx discarded
	VmError string
	Ret     []byte
	GasUsed uint64
	Logs    []*evmtypes.Log
	Err     error // error outside the EVM (ApplyMessage refused / panic)
}

// EvmCall applies one message on the real EVM with commit, exactly as a transaction's
// state transition does (ethermint ApplyMessage → geth EVM → precompiles → StateDB.Commit).
// Gas price is 0 so no fee is moved; gasLimit is honoured by the interpreter.
func (c *Chain) EvmCall(ctx sdk.Context, from common.Address, to *common.Address, value *big.Int, gasLimit uint64, data []byte) (res EvmResult) {
	defer func() {
		if r := recover(); r != nil {
			res.Err = fmt.Errorf("PANIC: %v", r)
		}
	}()
	c.EnsureAccount(ctx, from.Bytes())
	if value == nil {
		value = big.NewInt(0)
	}
	nonce := c.App.EvmKeeper.GetNonce(ctx, from)
	msg := &core.Message{
		From: from, To: to, Nonce: nonce, Value: value, GasLimit: gasLimit,
		GasPrice: big.NewInt(0), GasFeeCap: big.NewInt(0), GasTipCap: big.NewInt(0),
		Data: data, AccessList: ethtypes.AccessList{}, SkipAccountChecks: false,
	}
	r, err := c.App.EvmKeeper.ApplyMessage(ctx, msg, evmtypes.NewNoOpTracer(), true)
	if err != nil {
		res.Err = err
		return res
	}
	res.Failed = r.Failed()
	res.VmError = r.VmError
	res.Ret = r.Ret
	res.GasUsed = r.GasUsed
	res.Logs = r.Logs
	return res
}

// InstallCode puts runtime bytecode at addr (no constructor run).
func (c *Chain) InstallCode(ctx sdk.Context, addr common.Address, code []byte) {
	must(c.App.EvmKeeper.CreateContractWithCode(ctx, addr, code))
}

// ---------------- assembler ----------------

type Asm struct{ B []byte }

func (a *Asm) Op(ops ...vm.OpCode) *Asm {
	for _, o := range ops {
		a.B = append(a.B, byte(o))
	}
	return a
}

// Push pushes a big-endian value with the shortest PUSHn (n>=1).
func (a *Asm) Push(v []byte) *Asm {
	for len(v) > 1 && v[0] == 0 {
		v = v[1:]
	}
	if len(v) == 0 {
		v = []byte{0}
	}
	if len(v) > 32 {
		panic("push > 32 bytes")
	}
	a.B = append(a.B, byte(vm.PUSH1)+byte(len(v)-1))
	a.B = append(a.B, v...)
	return a
}
func (a *Asm) PushU(n uint64) *Asm { return a.Push(new(big.Int).SetUint64(n).Bytes()) }
func (a *Asm) PushAddr(addr common.Address) *Asm {
	a.B = append(a.B, byte(vm.PUSH20))
	a.B = append(a.B, addr.Bytes()...)
	return a
}

// StoreMem writes data into memory at offset off (PUSH32/MSTORE per word; tail zero padded).
func (a *Asm) StoreMem(off uint64, data []byte) *Asm {
	for i := 0; i < len(data); i += 32 {
		var w [32]byte
		copy(w[:], data[i:])
		a.B = append(a.B, byte(vm.PUSH32))
		a.B = append(a.B, w[:]...)
		a.PushU(off + uint64(i)).Op(vm.MSTORE)
	}
	return a
}

type CallKind int

const (
	CALL CallKind = iota
	STATICCALL
	DELEGATECALL
	CALLCODE
)

func (k CallKind) String() string { return [...]string{"CALL", "STATICCALL", "DELEGATECALL", "CALLCODE"}[k] }

// Call emits: store calldata at memory 0, perform the call with `gas` (0 = all remaining, via GAS),
// leaving the success flag (1/0) on the stack.
func (a *Asm) Call(kind CallKind, target common.Address, gas uint64, value *big.Int, calldata []byte) *Asm {
	a.StoreMem(0, calldata)
	a.PushU(0).PushU(0)                  // retSize, retOffset
	a.PushU(uint64(len(calldata))).PushU(0) // argsSize, argsOffset
	if kind == CALL || kind == CALLCODE {
		if value == nil {
			value = big.NewInt(0)
		}
		a.Push(value.Bytes())
	}
	a.PushAddr(target)
	if gas == 0 {
		a.Op(vm.GAS)
	} else {
		a.PushU(gas)
	}
	switch kind {
	case CALL:
		a.Op(vm.CALL)
	case STATICCALL:
		a.Op(vm.STATICCALL)
	case DELEGATECALL:
		a.Op(vm.DELEGATECALL)
	case CALLCODE:
		a.Op(vm.CALLCODE)
	}
	return a
}

// RequireSuccess: consumes the success flag; if 0, REVERT(0,0).
func (a *Asm) RequireSuccess() *Asm {
	// success ; PUSH dest ; JUMPI ; PUSH 0 ; PUSH 0 ; REVERT ; JUMPDEST
	dest := uint64(len(a.B)) + 3 + 1 + 2 + 2 + 1 // after PUSH2 dest(3) JUMPI(1) PUSH1 0(2) PUSH1 0(2) REVERT(1)
	a.B = append(a.B, byte(vm.PUSH2), byte(dest>>8), byte(dest))
	a.Op(vm.JUMPI)
	a.PushU(0).PushU(0).Op(vm.REVERT)
	a.Op(vm.JUMPDEST)
	return a
}

// Ignore drops the success flag (try/catch that swallows the failure).
func (a *Asm) Ignore() *Asm { return a.Op(vm.POP) }

// SStore writes value v to storage slot s of the executing contract.
func (a *Asm) SStore(slot, v uint64) *Asm { return a.PushU(v).PushU(slot).Op(vm.SSTORE) }

// Log0 emits an anonymous log with a 32-byte payload = tag.
func (a *Asm) Log0(tag uint64) *Asm {
	return a.PushU(tag).PushU(0).Op(vm.MSTORE).PushU(32).PushU(0).Op(vm.LOG0)
}

func (a *Asm) Stop() *Asm    { return a.Op(vm.STOP) }
func (a *Asm) Revert() *Asm  { return a.PushU(0).PushU(0).Op(vm.REVERT) }
func (a *Asm) Invalid() *Asm { return a.Op(vm.INVALID) }

// ForwardCalldata emits: copy this frame's calldata to memory 0 and CALL target with it (all gas),
// leaving the success flag — a contract "calling on behalf of" whoever called it.
func (a *Asm) ForwardCalldata(kind CallKind, target common.Address) *Asm {
	a.Op(vm.CALLDATASIZE).PushU(0).PushU(0).Op(vm.CALLDATACOPY)
	a.PushU(0).PushU(0).Op(vm.CALLDATASIZE).PushU(0)
	if kind == CALL || kind == CALLCODE {
		a.PushU(0)
	}
	a.PushAddr(target).Op(vm.GAS)
	switch kind {
	case CALL:
		a.Op(vm.CALL)
	case STATICCALL:
		a.Op(vm.STATICCALL)
	case DELEGATECALL:
		a.Op(vm.DELEGATECALL)
	case CALLCODE:
		a.Op(vm.CALLCODE)
	}
	return a
}
