package lib

// ibcchan.go: a transfer channel on the REAL app without a counterparty chain — channel end, connection end and
// localhost client written the way x/crosschain/precompile/contract_test.go (RandTransferChannel) does, but with
// deterministic identifiers — and switching its state between OPEN and CLOSED. Enough for ibc-go's
// transfer.Transfer -> channel.SendPacket to run (escrow/burn, sequence, packet commitment) or to be refused.

import (
	"fmt"

	sdk "github.com/cosmos/cosmos-sdk/types"
	capabilitytypes "github.com/cosmos/ibc-go/modules/capability/types"
	ibctransfertypes "github.com/cosmos/ibc-go/v8/modules/apps/transfer/types"
	clienttypes "github.com/cosmos/ibc-go/v8/modules/core/02-client/types"
	connectiontypes "github.com/cosmos/ibc-go/v8/modules/core/03-connection/types"
	channeltypes "github.com/cosmos/ibc-go/v8/modules/core/04-channel/types"
	commitmenttypes "github.com/cosmos/ibc-go/v8/modules/core/23-commitment/types"
	host "github.com/cosmos/ibc-go/v8/modules/core/24-host"
	"github.com/cosmos/ibc-go/v8/modules/core/exported"
	ibctm "github.com/cosmos/ibc-go/v8/modules/light-clients/07-tendermint"
	localhost "github.com/cosmos/ibc-go/v8/modules/light-clients/09-localhost"
)

// OpenTransferChannel creates an OPEN transfer channel on the block context and returns (port, channel id).
// firstSeq is the next send sequence of the new channel.
func (c *Chain) OpenTransferChannel(firstSeq uint64) (portID, channelID string) {
	ctx := c.Ctx
	k := c.App.IBCKeeper
	portID = ibctransfertypes.PortID
	seq := k.ChannelKeeper.GetNextChannelSequence(ctx)
	channelID = fmt.Sprintf("channel-%d", seq)
	connectionID := connectiontypes.FormatConnectionIdentifier(seq + 10)
	clientID := clienttypes.FormatClientIdentifier(exported.Localhost, seq+10)

	revision := clienttypes.ParseChainID(ctx.ChainID())
	lh := localhost.NewClientState(clienttypes.NewHeight(revision, uint64(ctx.BlockHeight())))
	k.ClientKeeper.SetClientState(ctx, clientID, lh)
	params := k.ClientKeeper.GetParams(ctx)
	allowed := false
	for _, a := range params.AllowedClients {
		if a == lh.ClientType() {
			allowed = true
		}
	}
	if !allowed {
		params.AllowedClients = append(params.AllowedClients, lh.ClientType())
		k.ClientKeeper.SetParams(ctx, params)
	}
	k.ClientKeeper.SetClientConsensusState(ctx, clientID, clienttypes.NewHeight(0, uint64(ctx.BlockHeight())),
		&ibctm.ConsensusState{Timestamp: ctx.BlockTime(), NextValidatorsHash: ctx.BlockHeader().NextValidatorsHash})

	capPath := host.ChannelCapabilityPath(portID, channelID)
	chanCap, err := c.App.ScopedIBCKeeper.NewCapability(ctx, capPath)
	must(err)
	must(c.App.ScopedTransferKeeper.ClaimCapability(ctx, capabilitytypes.NewCapability(chanCap.Index), capPath))

	k.ConnectionKeeper.SetConnection(ctx, connectionID, connectiontypes.NewConnectionEnd(connectiontypes.OPEN, clientID,
		connectiontypes.Counterparty{ClientId: "clientId", ConnectionId: "connection-1", Prefix: commitmenttypes.NewMerklePrefix([]byte("prefix"))},
		connectiontypes.GetCompatibleVersions(), 500))
	k.ChannelKeeper.SetChannel(ctx, portID, channelID, channeltypes.NewChannel(channeltypes.OPEN, channeltypes.ORDERED,
		channeltypes.NewCounterparty(portID, channelID), []string{connectionID}, "mock-version"))
	k.ChannelKeeper.SetNextSequenceSend(ctx, portID, channelID, firstSeq)
	k.ChannelKeeper.SetNextChannelSequence(ctx, seq+1)
	return portID, channelID
}

// SetChannelClosed switches the channel end between CLOSED (true) and OPEN (false) on ctx.
func (c *Chain) SetChannelClosed(ctx sdk.Context, portID, channelID string, closed bool) {
	ch, found := c.App.IBCKeeper.ChannelKeeper.GetChannel(ctx, portID, channelID)
	if !found {
		panic("no such channel " + portID + "/" + channelID)
	}
	ch.State = channeltypes.OPEN
	if closed {
		ch.State = channeltypes.CLOSED
	}
	c.App.IBCKeeper.ChannelKeeper.SetChannel(ctx, portID, channelID, ch)
}

// NextSequenceSend of the channel on ctx.
func (c *Chain) NextSequenceSend(ctx sdk.Context, portID, channelID string) uint64 {
	s, _ := c.App.IBCKeeper.ChannelKeeper.GetNextSequenceSend(ctx, portID, channelID)
	return s
}
