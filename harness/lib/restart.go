package lib

// restart.go: "the node was restarted": a NEW application object is constructed on the SAME database
// (everything that lives only in the memory of the old process object — caches inside keepers, lazily
// loaded values — is gone; everything committed is there) and the block being built is reopened.
// Must be called right after NextBlock/NextBlockResp, before anything was applied on c.Ctx.

import (
	"fmt"
	"reflect"
	"unsafe"

	"cosmossdk.io/log"
	abci "github.com/cometbft/cometbft/abci/types"
	dbm "github.com/cosmos/cosmos-db"
	"github.com/spf13/viper"

	"github.com/functionx/fx-core/v8/app"
	fxtypes "github.com/functionx/fx-core/v8/types"
)

// appDB reads BaseApp's (unexported) database handle.
func (c *Chain) appDB() dbm.DB {
	f := reflect.ValueOf(c.App.BaseApp).Elem().FieldByName("db")
	if !f.IsValid() {
		panic("baseapp.BaseApp has no field db any more")
	}
	return reflect.NewAt(f.Type(), unsafe.Pointer(f.UnsafeAddr())).Elem().Interface().(dbm.DB)
}

func (c *Chain) Restart() (err error) {
	defer func() {
		if r := recover(); r != nil {
			err = fmt.Errorf("PANIC while restarting: %v", r)
		}
	}()
	db := c.appDB()
	v := viper.New()
	for k, val := range c.Opts {
		v.Set(k, val)
	}
	na := app.New(log.NewNopLogger(), db, nil, true, map[int64]bool{}, fxtypes.GetDefaultNodeHome(), v)
	if got := na.LastBlockHeight(); got != c.Height {
		return fmt.Errorf("restarted app is at height %d, the chain at %d", got, c.Height)
	}
	if _, e := na.ProcessProposal(&abci.RequestProcessProposal{
		Height:             c.Height + 1,
		Time:               c.Time.Add(BlockStep),
		ProposerAddress:    c.proposer,
		ProposedLastCommit: c.commit,
	}); e != nil {
		return fmt.Errorf("ProcessProposal after restart: %w", e)
	}
	c.App = na
	c.Ctx = c.App.GetContextForFinalizeBlock(nil).WithProposer(c.proposer)
	// the harnesses apply operations on c.Ctx BEFORE FinalizeBlock runs the begin blockers; a real node's
	// first begin blocker after a restart rebuilds the capability module's in-memory index — do it here
	// (memory store only, nothing of it is committed state)
	c.App.CapabilityKeeper.InitMemStore(c.Ctx)
	return nil
}
