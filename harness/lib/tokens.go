package lib

// tokens.go: a reusable "token universe" on the REAL app, registered the way production does it
// (erc20 MsgServer RegisterCoin / RegisterERC20 under the gov authority, bridge tokens through the
// crosschain keeper's AddBridgeTokenExecuted — the handler of an observed MsgBridgeTokenClaim):
//
//   - FX            the native coin; pair with the WFX wrapper comes from genesis; bridge token on eth
//   - module-owned  a "native coin" pair (FIP20 deployed and owned by the erc20 module) with 1..n
//                   bridge-denom aliases on different chain modules and, optionally, an IBC voucher alias
//   - external      a "native ERC20" pair: a FIP20 deployed and owned by a user, registered with aliases
//
// plus small read helpers (ERC-20 balanceOf/totalSupply through the real EVM, module addresses).

import (
	"encoding/json"
	"fmt"
	"math/big"
	"strings"

	"cosmossdk.io/log"
	sdkmath "cosmossdk.io/math"
	abci "github.com/cometbft/cometbft/abci/types"
	dbm "github.com/cosmos/cosmos-db"
	sdk "github.com/cosmos/cosmos-sdk/types"
	authtypes "github.com/cosmos/cosmos-sdk/x/auth/types"
	ibctransfertypes "github.com/cosmos/ibc-go/v8/modules/apps/transfer/types"
	ibcexported "github.com/cosmos/ibc-go/v8/modules/core/exported"
	ibctypes "github.com/cosmos/ibc-go/v8/modules/core/types"
	"github.com/ethereum/go-ethereum/common"
	"github.com/spf13/viper"

	"github.com/functionx/fx-core/v8/app"

	"github.com/functionx/fx-core/v8/contract"
	fxtypes "github.com/functionx/fx-core/v8/types"
	crosschaintypes "github.com/functionx/fx-core/v8/x/crosschain/types"
	erc20types "github.com/functionx/fx-core/v8/x/erc20/types"
)

type TokenKind int

const (
	TokFX          TokenKind = iota // the native coin, wrapped by WFX
	TokModuleOwned                  // erc20 "native coin" pair (OWNER_MODULE)
	TokExternal                     // erc20 "native ERC20" pair (OWNER_EXTERNAL)
)

func (k TokenKind) String() string { return [...]string{"fx", "module-owned", "external"}[k] }

// BridgeAlias is one per-chain representation of a token: the external contract and the bridge denom.
type BridgeAlias struct {
	Chain    string
	Contract string // external token contract, in the chain's address format
	Denom    string // bridge denom = chain name + contract ("FX" itself for the native coin)
}

type Token struct {
	Kind       TokenKind
	Base       string // base denom on fxcore
	Symbol     string
	ERC20      common.Address
	Aliases    []BridgeAlias
	IBCDenom   string // "ibc/HASH" alias, "" if none
	IBCChannel string // channel of the IBC alias's trace
	Owner      Key    // external kind: deployer/owner of the ERC-20
}

func (t *Token) Alias(chain string) *BridgeAlias {
	for i := range t.Aliases {
		if t.Aliases[i].Chain == chain {
			return &t.Aliases[i]
		}
	}
	return nil
}

// Denoms lists every bank denomination of the token: base, bridge denoms (except FX's, which is the base), IBC alias.
func (t *Token) Denoms() []string {
	out := []string{t.Base}
	for _, a := range t.Aliases {
		if a.Denom != t.Base {
			out = append(out, a.Denom)
		}
	}
	if t.IBCDenom != "" {
		out = append(out, t.IBCDenom)
	}
	return out
}

func ModuleAcc(name string) sdk.AccAddress { return authtypes.NewModuleAddress(name) }
func ModuleHex(name string) common.Address  { return common.BytesToAddress(ModuleAcc(name)) }

// ExternalContract derives a deterministic external token-contract address in chain's format.
func ExternalContract(seed int64, chain string, i int) string {
	return crosschaintypes.ExternalAddrToStr(chain, seedBytes(seed, "extcontract/"+chain, i)[:20])
}

// ExternalAccount derives a deterministic external (destination) account address in chain's format.
func ExternalAccount(seed int64, chain string, i int) string {
	return crosschaintypes.ExternalAddrToStr(chain, seedBytes(seed, "extaccount/"+chain, i)[:20])
}

// AddBridgeToken runs the handler of an observed MsgBridgeTokenClaim on chain (symbol "FX" binds the native coin).
func (c *Chain) AddBridgeToken(chain, contractAddr, symbol string) error {
	k := c.XKeeper(chain)
	return k.AddBridgeTokenExecuted(c.Ctx, &crosschaintypes.MsgBridgeTokenClaim{
		TokenContract: contractAddr, Name: symbol + " token", Symbol: symbol, Decimals: 18, ChainName: chain,
	})
}

// SetupFX binds the native coin to an external contract on each given chain and returns its descriptor.
// (The FX/WFX pair itself is registered by the erc20 module's InitGenesis.)
func (c *Chain) SetupFX(chains []string) *Token {
	pair, ok := c.App.Erc20Keeper.GetTokenPair(c.Ctx, fxtypes.DefaultDenom)
	if !ok {
		panic("FX token pair missing from genesis")
	}
	t := &Token{Kind: TokFX, Base: fxtypes.DefaultDenom, Symbol: fxtypes.DefaultDenom, ERC20: pair.GetERC20Contract()}
	for i, ch := range chains {
		ca := ExternalContract(c.Seed, ch, 9000+i)
		must(c.AddBridgeToken(ch, ca, fxtypes.DefaultDenom))
		t.Aliases = append(t.Aliases, BridgeAlias{Chain: ch, Contract: ca, Denom: fxtypes.DefaultDenom})
	}
	return t
}

// SetIBCAlias stores the denom trace transfer/<channel>/<baseDenom> and returns its ibc/HASH denom.
func (c *Chain) SetIBCAlias(channel, baseDenom string) string {
	trace := ibctransfertypes.ParseDenomTrace(ibctransfertypes.GetDenomPrefix(ibctransfertypes.PortID, channel) + baseDenom)
	if !c.App.IBCTransferKeeper.HasDenomTrace(c.Ctx, trace.Hash()) {
		c.App.IBCTransferKeeper.SetDenomTrace(c.Ctx, trace)
	}
	return trace.IBCDenom()
}

// SetupModuleOwned registers a module-owned ("native coin") pair through the real RegisterCoin handler with one
// bridge alias per chain (and an IBC alias when ibcChannel != ""), then adds the bridge tokens on each chain.
// idx separates the derived contract addresses of several tokens.
func (c *Chain) SetupModuleOwned(symbol string, idx int, chains []string, ibcChannel string) (*Token, error) {
	return c.SetupModuleOwnedAs(strings.ToLower(symbol), symbol, idx, chains, ibcChannel)
}

// SetupModuleOwnedAs: the same with a base denom chosen by the caller (any string MsgRegisterCoin accepts: case variants and
// near-misses of the special denoms included) instead of the lower-cased symbol.
func (c *Chain) SetupModuleOwnedAs(denom, symbol string, idx int, chains []string, ibcChannel string) (*Token, error) {
	t := &Token{Kind: TokModuleOwned, Base: denom, Symbol: symbol}
	var aliases []string
	for _, ch := range chains {
		ca := ExternalContract(c.Seed, ch, idx)
		a := BridgeAlias{Chain: ch, Contract: ca, Denom: crosschaintypes.NewBridgeDenom(ch, ca)}
		t.Aliases = append(t.Aliases, a)
		aliases = append(aliases, a.Denom)
	}
	if ibcChannel != "" {
		t.IBCChannel = ibcChannel
		t.IBCDenom = c.SetIBCAlias(ibcChannel, strings.ToLower(symbol)+"-remote")
		aliases = append(aliases, t.IBCDenom)
	}
	md := fxtypes.GetCrossChainMetadataManyToOne(symbol+" token", symbol, 18, aliases...)
	md.Base, md.Display, md.DenomUnits[0].Denom = denom, denom, denom
	msg := &erc20types.MsgRegisterCoin{Authority: GovAuthority(), Metadata: md}
	if err := msg.ValidateBasic(); err != nil {
		return nil, err
	}
	var pair erc20types.TokenPair
	if err := c.Try(func(ctx sdk.Context) error {
		res, err := c.App.Erc20Keeper.RegisterCoin(ctx, msg)
		if err == nil {
			pair = res.Pair
		}
		return err
	}); err != nil {
		return nil, err
	}
	t.ERC20 = pair.GetERC20Contract()
	for _, a := range t.Aliases {
		if err := c.AddBridgeToken(a.Chain, a.Contract, a.Denom); err != nil {
			return nil, err
		}
	}
	return t, nil
}

// DeployFIP20 deploys a FIP20 (upgradable proxy over the genesis logic contract) owned by owner.
func (c *Chain) DeployFIP20(owner Key, name, symbol string) (common.Address, error) {
	c.EnsureAccount(c.Ctx, owner.Acc())
	var addr common.Address
	err := c.Try(func(ctx sdk.Context) error {
		a, err := c.App.Erc20Keeper.DeployUpgradableToken(ctx, owner.Hex(), name, symbol, 18)
		addr = a
		return err
	})
	return addr, err
}

// ERC20OwnerMint calls mint(to, amount) on token as its owner (keeper-level EVM call with commit).
func (c *Chain) ERC20OwnerMint(ctx sdk.Context, token common.Address, owner Key, to common.Address, amount *big.Int) error {
	_, err := c.App.EvmKeeper.ApplyContract(ctx, owner.Hex(), token, nil, contract.GetFIP20().ABI, "mint", to, amount)
	return err
}

// SetupExternal deploys a user-owned FIP20 and registers it through the real RegisterERC20 handler with one bridge
// alias per chain, then adds the bridge tokens on each chain.
func (c *Chain) SetupExternal(symbol string, idx int, owner Key, chains []string) (*Token, error) {
	addr, err := c.DeployFIP20(owner, symbol+" token", symbol)
	if err != nil {
		return nil, err
	}
	return c.SetupExternalAt(symbol, idx, owner, addr, chains)
}

// SetupExternalAt registers an ERC-20 that already exists at addr (any bytecode answering name / symbol / decimals with
// symbol == the given one) as an externally-owned pair with one bridge alias per chain.
func (c *Chain) SetupExternalAt(symbol string, idx int, owner Key, addr common.Address, chains []string) (*Token, error) {
	t := &Token{Kind: TokExternal, Base: strings.ToLower(symbol), Symbol: symbol, Owner: owner}
	t.ERC20 = addr
	var aliases []string
	for _, ch := range chains {
		ca := ExternalContract(c.Seed, ch, idx)
		a := BridgeAlias{Chain: ch, Contract: ca, Denom: crosschaintypes.NewBridgeDenom(ch, ca)}
		t.Aliases = append(t.Aliases, a)
		aliases = append(aliases, a.Denom)
	}
	msg := &erc20types.MsgRegisterERC20{Authority: GovAuthority(), Erc20Address: addr.Hex(), Aliases: aliases}
	if err := msg.ValidateBasic(); err != nil {
		return nil, err
	}
	if err := c.Try(func(ctx sdk.Context) error {
		_, err := c.App.Erc20Keeper.RegisterERC20(ctx, msg)
		return err
	}); err != nil {
		return nil, err
	}
	for _, a := range t.Aliases {
		if err := c.AddBridgeToken(a.Chain, a.Contract, a.Denom); err != nil {
			return nil, err
		}
	}
	return t, nil
}

// ---- reads ----

func (c *Chain) Bal(ctx sdk.Context, addr sdk.AccAddress, denom string) *big.Int {
	return c.App.BankKeeper.GetBalance(ctx, addr, denom).Amount.BigInt()
}

func (c *Chain) Supply(ctx sdk.Context, denom string) *big.Int {
	return c.App.BankKeeper.GetSupply(ctx, denom).Amount.BigInt()
}

// ERC20BalanceOf reads balanceOf through the real EVM (0 if the call fails, e.g. destroyed contract).
func (c *Chain) ERC20BalanceOf(ctx sdk.Context, token, holder common.Address) *big.Int {
	v, err := c.App.EvmKeeper.ERC20BalanceOf(ctx, token, holder)
	if err != nil || v == nil {
		return big.NewInt(0)
	}
	return v
}

// ERC20TotalSupply reads totalSupply through the real EVM (0 if the call fails).
func (c *Chain) ERC20TotalSupply(ctx sdk.Context, token common.Address) *big.Int {
	var res struct{ Value *big.Int }
	if err := c.App.EvmKeeper.QueryContract(ctx, ModuleHex(erc20types.ModuleName), token, contract.GetFIP20().ABI, "totalSupply", &res); err != nil || res.Value == nil {
		return big.NewInt(0)
	}
	return res.Value
}

// Coin is a small constructor: amount of denom.
func Coin(denom string, n int64) sdk.Coin { return sdk.NewCoin(denom, sdkmath.NewInt(n)) }

func (t *Token) String() string {
	return fmt.Sprintf("%s(%s erc20=%s aliases=%v ibc=%s)", t.Symbol, t.Kind, t.ERC20.Hex(), t.Aliases, t.IBCDenom)
}


// ---------------- lifecycle: genesis export + import ----------------

// ExportImport is "the chain is stopped, its state exported to a genesis file, and a new chain is started from that
// file", through the real application-level path: the block being built is committed (real end/begin blockers),
// App.ExportAppStateAndValidators writes the genesis, a NEW application object on an empty database runs InitChain on
// it.  The returned chain continues where the old one stopped (same keys, validators, time; operations go on its
// Ctx, NextBlock works).  The only edit to the exported file: the built-in 09-localhost IBC client is exported although
// the default allow-list does not name it, so it is added to the allow-list (without it the unchanged application
// refuses its own export).  A panic or error anywhere on the way is returned.
func (c *Chain) ExportImport() (nc *Chain, err error) {
	defer func() {
		if r := recover(); r != nil {
			nc, err = nil, fmt.Errorf("PANIC in export/import: %v", r)
		}
	}()
	if err = c.NextBlock(); err != nil {
		return nil, err
	}
	exported, err := c.App.ExportAppStateAndValidators(false, []string{}, []string{})
	if err != nil {
		return nil, fmt.Errorf("export: %w", err)
	}
	v := viper.New()
	for k, val := range c.Opts {
		v.Set(k, val)
	}
	na := app.New(log.NewNopLogger(), dbm.NewMemDB(), nil, true, map[int64]bool{}, fxtypes.GetDefaultNodeHome(), v)
	state := app.GenesisState{}
	if err = json.Unmarshal(exported.AppState, &state); err != nil {
		return nil, err
	}
	ibcGen := new(ibctypes.GenesisState)
	na.AppCodec().MustUnmarshalJSON(state[ibcexported.ModuleName], ibcGen)
	ibcGen.ClientGenesis.Params.AllowedClients = append(ibcGen.ClientGenesis.Params.AllowedClients, ibcexported.Localhost)
	state[ibcexported.ModuleName] = na.AppCodec().MustMarshalJSON(ibcGen)
	bz, err := json.Marshal(state)
	if err != nil {
		return nil, err
	}
	cp := app.CustomGenesisConsensusParams().ToProto()
	if _, err = na.InitChain(&abci.RequestInitChain{Time: c.Time, ConsensusParams: &cp, AppStateBytes: bz, InitialHeight: exported.Height}); err != nil {
		return nil, fmt.Errorf("InitChain on the exported state: %w", err)
	}
	nc = &Chain{App: na, ValSet: c.ValSet, ValKeys: c.ValKeys, Seed: c.Seed, Height: exported.Height - 1, Time: c.Time,
		commit: c.commit, proposer: c.proposer, Opts: c.Opts}
	nc.Ctx = na.GetContextForFinalizeBlock(nil).WithProposer(c.proposer).WithBlockTime(c.Time.Add(BlockStep)).WithBlockHeight(exported.Height)
	return nc, nil
}
